//! C07: Rational<T> exact and canonical. Reference: i128 cross-multiplication with an independent Euclid.

use proptest::prelude::*;
use rlib_num_traits::ZeroOne;
use rlib_rational::Rational;
use serde::{Deserialize, Serialize};
use std::cmp::Ordering;
use std::collections::hash_map::DefaultHasher;
use std::hash::{Hash, Hasher};
use vcore::{vensure, CaseResult, CaseStats, Ctx};

#[derive(Clone, Debug, Hash, Serialize, Deserialize, PartialEq)]
struct Case {
    /// 0 = i32, 1 = i64, 2 = i128
    ty: u8,
    a: i64,
    b: i64,
    c: i64,
    d: i64,
}

fn g(a: i128, b: i128) -> i128 {
    let (mut a, mut b) = (a.abs(), b.abs());
    while b != 0 {
        let t = a % b;
        a = b;
        b = t;
    }
    a
}

/// canonical (numerator, denominator) of n/d, d != 0
fn canon(n: i128, d: i128) -> (i128, i128) {
    let k = g(n, d);
    let (mut n, mut d) = (n / k, d / k);
    if d < 0 {
        n = -n;
        d = -d;
    }
    (n, d)
}

fn h<T: Hash>(t: &T) -> u64 {
    let mut s = DefaultHasher::new();
    t.hash(&mut s);
    s.finish()
}

macro_rules! impl_check {
    ($name:ident, $t:ty) => {
        fn $name(c: &Case) -> CaseResult {
            let mut st = CaseStats::default();
            let (a, b, cc, d) = (c.a as i128, c.b as i128, c.c as i128, c.d as i128);
            let x = Rational::<$t>::new(c.a as $t, c.b as $t);
            let y = Rational::<$t>::new(c.c as $t, c.d as $t);
            let tn = stringify!($t);
            macro_rules! same {
                ($what:expr, $got:expr, $n:expr, $dn:expr) => {{
                    let got: Rational<$t> = $got;
                    let (wn, wd) = canon($n, $dn);
                    vensure!(
                        got.a as i128 == wn && got.b as i128 == wd,
                        $what,
                        "{} {}: ({}/{}) op ({}/{}) gave {}/{}, exact canonical result {}/{}",
                        tn, $what, c.a, c.b, c.c, c.d, got.a, got.b, wn, wd
                    );
                    let fresh = Rational::<$t>::new(wn as $t, wd as $t);
                    vensure!(got == fresh, "eq-structural", "{} {}: result {}/{} != new({}, {})", tn, $what, got.a, got.b, wn, wd);
                    vensure!(h(&got) == h(&fresh), "hash", "{} {}: equal values hash differently", tn, $what);
                }};
            }
            same!("new", x, a, b);
            same!("new", y, cc, d);
            same!("add", x + y, a * d + b * cc, b * d);
            same!("add-ref", x + &y, a * d + b * cc, b * d);
            same!("sub", x - y, a * d - b * cc, b * d);
            same!("sub-ref", x - &y, a * d - b * cc, b * d);
            same!("mul", x * y, a * cc, b * d);
            same!("mul-ref", x * &y, a * cc, b * d);
            same!("neg", -x, -a, b);
            let mut t = x;
            t += y;
            same!("add_assign", t, a * d + b * cc, b * d);
            let mut t = x;
            t += &y;
            same!("add_assign-ref", t, a * d + b * cc, b * d);
            let mut t = x;
            t -= y;
            same!("sub_assign", t, a * d - b * cc, b * d);
            let mut t = x;
            t -= &y;
            same!("sub_assign-ref", t, a * d - b * cc, b * d);
            let mut t = x;
            t *= y;
            same!("mul_assign", t, a * cc, b * d);
            let mut t = x;
            t *= &y;
            same!("mul_assign-ref", t, a * cc, b * d);
            if cc != 0 {
                same!("div", x / y, a * d, b * cc);
                same!("div-ref", x / &y, a * d, b * cc);
                let mut t = x;
                t /= y;
                same!("div_assign", t, a * d, b * cc);
                let mut t = x;
                t /= &y;
                same!("div_assign-ref", t, a * d, b * cc);
            }
            // zero and one interplay
            same!("sub-from-zero", Rational::<$t>::ZERO - y, -cc, d);
            same!("add-zero", x + Rational::<$t>::ZERO, a, b);
            same!("mul-one", x * Rational::<$t>::ONE, a, b);
            same!("new_int", Rational::<$t>::new_int(c.a as $t), a, 1);
            // order and equality follow the value
            let (xn, xd) = canon(a, b);
            let (yn, yd) = canon(cc, d);
            let want = (xn * yd).cmp(&(yn * xd));
            vensure!(x.cmp(&y) == want, "cmp", "{}: cmp({}/{}, {}/{}) = {:?}, numeric order {:?}", tn, c.a, c.b, c.c, c.d, x.cmp(&y), want);
            vensure!(y.cmp(&x) == want.reverse(), "cmp-antisymmetry", "{}: cmp is not antisymmetric on {}/{} and {}/{}", tn, c.a, c.b, c.c, c.d);
            vensure!(x.partial_cmp(&y) == Some(want), "partial_cmp", "{}: partial_cmp differs from cmp", tn);
            vensure!((x == y) == (want == Ordering::Equal), "eq-vs-cmp", "{}: == is {} but cmp is {:?} for {}/{} and {}/{}", tn, x == y, want, c.a, c.b, c.c, c.d);
            vensure!((x == y) == (h(&x) == h(&y)) || x != y, "hash", "{}: equal values with different hashes", tn);
            vensure!((x < y) == (want == Ordering::Less) && (x >= y) == (want != Ordering::Less), "lt-ge", "{}: relational operators disagree with cmp", tn);
            // floor / ceil
            let fl = xn.div_euclid(xd);
            let ce = -((-xn).div_euclid(xd));
            let f = x.floor();
            let e = x.ceil();
            vensure!(f.a as i128 == fl && f.b as i128 == 1, "floor", "{}: floor({}/{}) = {}/{}, expected {}/1", tn, c.a, c.b, f.a, f.b, fl);
            vensure!(e.a as i128 == ce && e.b as i128 == 1, "ceil", "{}: ceil({}/{}) = {}/{}, expected {}/1", tn, c.a, c.b, e.a, e.b, ce);
            vensure!(format!("{}", x) == format!("{}/{}", xn, xd), "display", "{}: Display of {}/{} gives {}", tn, c.a, c.b, x);
            vensure!(format!("{:?}", x) == format!("{}/{}", xn, xd), "debug", "{}: Debug of {}/{} gives {:?}", tn, c.a, c.b, x);
            // classification
            let shared = g(b, d) > 1 || g(a, d) > 1 || g(b, cc) > 1 && cc != 0 || g(a, b) > 1;
            if shared {
                st.label("shared-factor");
            }
            if b < 0 || d < 0 {
                st.label("negative-denominator-supplied");
            }
            if xn < 0 && xd != 1 {
                st.label("negative-non-integer");
            }
            st.nontrivial = shared || b < 0 || d < 0 || (xn < 0 && xd != 1);
            Ok(st)
        }
    };
}

impl_check!(check_i32, i32);
impl_check!(check_i64, i64);
impl_check!(check_i128, i128);

fn run_case(c: &Case) -> CaseResult {
    if c.b == 0 || c.d == 0 {
        let mut st = CaseStats::default();
        st.label("zero-denominator-skipped");
        return Ok(st);
    }
    match c.ty % 3 {
        0 => check_i32(c),
        1 => check_i64(c),
        _ => check_i128(c),
    }
}

fn comp(bound: i64) -> BoxedStrategy<i64> {
    prop_oneof![
        3 => -12i64..=12,
        2 => prop::sample::select(vec![0, 1, -1, 2, -2, bound, -bound, bound - 1, 1 - bound, bound / 2, bound / 3 * 3]),
        3 => -bound..=bound,
        1 => (1i64..=1000).prop_map(move |k| (bound / k).max(1)),
    ]
    .boxed()
}

fn nz(bound: i64) -> BoxedStrategy<i64> {
    comp(bound).prop_map(|v| if v == 0 { 1 } else { v }).boxed()
}

fn case_for(ty: u8) -> impl Strategy<Value = Case> {
    let bound: i64 = match ty {
        0 => 1 << 14,
        1 => 1 << 30,
        _ => 1 << 60,
    };
    // shared factors across the two fractions: (k*p)/(k2*q) and (k2*r)/(k*s)
    let root = (bound as f64).sqrt() as i64;
    let shared = (1..=root.min(1 << 20), 1..=root.min(1 << 20), -root..=root, nz(root), -root..=root, nz(root))
        .prop_map(move |(k, k2, p, q, r, s)| Case { ty, a: k * p, b: k2 * q, c: k2 * r, d: k * s });
    let plain = (comp(bound), nz(bound), comp(bound), nz(bound)).prop_map(move |(a, b, c, d)| Case { ty, a, b, c, d });
    prop_oneof![plain, shared]
}

fn main() {
    let mut ctx = Ctx::init("C07");
    ctx.rule(
        "Cases are pairs of fractions a/b, c/d (b,d != 0, either sign) for Rational<i32> (|.|<=2^14), Rational<i64> (<=2^30) and \
         Rational<i128> (<=2^60): exhaustively all components in [-6,6] (quick) / [-12,12] (thorough), then generated with bias to shared \
         factors across the two fractions, negative denominators, 0, +-1 and bound-adjacent values, plus pairs of ratios of neighbouring Fibonacci / Lucas-type numbers up to the bound (Euclid's worst case: longest continued fractions and gcd runs). Every operator is used by value, by \
         reference and in both assigning forms. Oracle: exact i128 cross-multiplication; the result must be in lowest terms with positive \
         denominator (independent Euclid), == and DefaultHasher digests agree with a freshly constructed equal value, cmp = sign(ad-bc), \
         antisymmetric, consistent with ==, <, >=; floor/ceil = div_euclid based with denominator 1; Display/Debug = a/b. Non-trivial = \
         shared factor, a negative denominator supplied, or a negative non-integer value. Distinct = distinct (sub-check, case).",
    );
    ctx.assume("magnitudes are bounded so that every intermediate product of the library's formulas fits the integer type (the property's overflow threshold)");
    ctx.replayer("rational-case", |v| run_case(&serde_json::from_value::<Case>(v.clone()).expect("case")));
    ctx.begin();
    let r = ctx.n(6, 12) as i64;
    for ty in 0..3u8 {
        let it = (-r..=r).flat_map(move |a| (-r..=r).filter(|&b| b != 0).flat_map(move |b| (-r..=r).flat_map(move |c| (-r..=r).filter(|&d| d != 0).map(move |d| Case { ty, a, b, c, d }))));
        ctx.exhaustive(
            &format!("box-{}", ["i32", "i64", "i128"][ty as usize]),
            "rational-case",
            &format!("all a/b, c/d with components in [-{},{}], b,d != 0", r, r),
            true,
            it,
            run_case,
        );
    }
    // Euclid's worst case: ratios of neighbouring Fibonacci / Lucas numbers agree in all their partial quotients but the last, and
    // gcds of products of such numbers take the maximal number of division steps (about 1.44*log2 of the magnitude). All operator
    // forms, comparison and hashing on every pair of such fractions within the type's bound, reciprocals and negations included.
    for ty in 0..3u8 {
        let bound: i64 = [1 << 14, 1 << 30, 1 << 60][ty as usize];
        let mut seq: Vec<i64> = Vec::new();
        for (x0, x1) in [(1i64, 1i64), (2, 1), (1, 3), (3, 7)] {
            let (mut x, mut y) = (x0, x1);
            while y <= bound {
                seq.push(y);
                let z = x + y;
                x = y;
                y = z;
            }
            // keep only the upper third of every chain: long continued fractions
            let keep = seq.len();
            let _ = keep;
        }
        let mut fr: Vec<(i64, i64)> = Vec::new();
        for w in seq.windows(2) {
            if w[1] > w[0] && w[1] > bound / 4096 {
                fr.push((w[1], w[0]));
                fr.push((w[0], w[1]));
                fr.push((-w[1], w[0]));
                fr.push((w[0], -w[1]));
            }
        }
        let frc = fr.clone();
        let step = (fr.len() / 40).max(1);
        let cases = fr.into_iter().enumerate().flat_map(move |(i, (a, b))| {
            let frc = frc.clone();
            // neighbours in the chain (closest values) and a stride sample of all the others
            (0..frc.len()).filter(move |j| (*j as i64 - i as i64).abs() <= 9 || j % step == i % step).map(move |j| Case { ty, a, b, c: frc[j].0, d: frc[j].1 })
        });
        ctx.exhaustive(&format!("fibonacci-ratios-{}", ["i32", "i64", "i128"][ty as usize]), "rational-case", "pairs of ratios of neighbouring Fibonacci / Lucas-type numbers near the type's bound (with reciprocals and negations)", false, cases, run_case);
    }
    for ty in 0..3u8 {
        ctx.prop_split(&format!("generated-{}", ["i32", "i64", "i128"][ty as usize]), "rational-case", ctx.n(20_000, 3_000_000), ctx.parts(), case_for(ty).boxed(), run_case);
    }
    ctx.finish();
}
