//! C05: DSU vs naive label model; forest depth <= floor(log2(component size)) read through the verif hook.

use proptest::prelude::*;
use rlib_dsu::DSU;
use serde::{Deserialize, Serialize};
use vcore::{pick, vensure, CaseResult, CaseStats, Ctx, SplitMix, Violation};

#[derive(Clone, Debug, Hash, Serialize, Deserialize, PartialEq)]
enum Op {
    Un { u: u16, v: u16 },
    /// union applied to the current *roots* of u and v (no compression on the way: builds the deepest forests)
    UnRoots { u: u16, v: u16 },
    Par { v: u16 },
    Check { u: u16, v: u16 },
    Size { v: u16 },
    Reset { m: u8 },
    /// `reset(m)` repeated MANY[k % 6] times on the same object (generation counters that wrap at 16 bits)
    ResetMany { m: u8, k: u8 },
    CloneSwap,
    /// `d.clone_from(&frozen[k])`: continue from an earlier snapshot (possibly of another size)
    CloneFromFrozen { k: u8 },
}

#[derive(Clone, Debug, Hash, Serialize, Deserialize, PartialEq)]
struct Case {
    n: u8,
    ops: Vec<Op>,
}

const MANY: [u32; 6] = [65535, 65536, 65537, 131071, 131072, 196608];

struct Model {
    label: Vec<usize>,
}
impl Model {
    fn new(n: usize) -> Self {
        Self { label: (0..n).collect() }
    }
    fn un(&mut self, u: usize, v: usize) -> bool {
        let (a, b) = (self.label[u], self.label[v]);
        if a == b {
            return false;
        }
        for l in self.label.iter_mut() {
            if *l == a {
                *l = b;
            }
        }
        true
    }
    fn size(&self, v: usize) -> usize {
        self.label.iter().filter(|&&l| l == self.label[v]).count()
    }
}

/// roots and depths of all vertices, read through the hook (never compresses); None if the parent
/// pointers contain a cycle other than a root self-loop or point outside the array
fn forest(d: &DSU) -> Option<(Vec<usize>, Vec<usize>)> {
    let n = d.verif_len();
    let mut root = vec![usize::MAX; n];
    let mut depth = vec![0usize; n];
    for s in 0..n {
        if root[s] != usize::MAX {
            continue;
        }
        let mut path = vec![];
        let mut v = s;
        loop {
            if v >= n {
                return None;
            }
            if root[v] != usize::MAX {
                break;
            }
            let p = d.verif_parent(v);
            if p == v {
                root[v] = v;
                depth[v] = 0;
                break;
            }
            path.push(v);
            if path.len() > n {
                return None;
            }
            v = p;
        }
        let (r, mut dd) = (root[v], depth[v]);
        for &x in path.iter().rev() {
            dd += 1;
            root[x] = r;
            depth[x] = dd;
        }
    }
    Some((root, depth))
}

fn check_forest(d: &DSU, m: &Model, step: usize, prev_roots: Option<&[usize]>, unioned: bool) -> Result<Vec<usize>, Violation> {
    let n = m.label.len();
    vensure!(d.verif_len() == n, "len", "step {}: structure holds {} elements, model {}", step, d.verif_len(), n);
    let (root, depth) = match forest(d) {
        Some(x) => x,
        None => return Err(Violation::new("forest-cycle", format!("step {}: parent pointers do not form a forest", step))),
    };
    for v in 0..n {
        vensure!(
            m.label[root[v]] == m.label[v],
            "representative-outside-component",
            "step {}: root of {} is {}, which the model puts in another component",
            step, v, root[v]
        );
        for w in 0..v {
            if m.label[w] == m.label[v] {
                vensure!(root[w] == root[v], "two-roots-in-one-component", "step {}: {} and {} are connected in the model but have roots {} and {}", step, w, v, root[w], root[v]);
                break;
            }
        }
        let sz = m.size(v);
        vensure!(
            d.verif_size_raw(root[v]) == sz,
            "size-at-root",
            "step {}: size stored at root {} is {}, component of {} has {} elements",
            step, root[v], d.verif_size_raw(root[v]), v, sz
        );
        let bound = (usize::BITS - 1 - sz.leading_zeros()) as usize; // floor(log2 sz)
        vensure!(
            depth[v] <= bound,
            "depth",
            "step {}: vertex {} sits at depth {} in a component of {} elements (bound floor(log2 size) = {})",
            step, v, depth[v], sz, bound
        );
    }
    let _ = (prev_roots, unioned);
    Ok(root)
}

/// The representative clause, through the public API only: `par` of every element, taken on a *clone* so that the lookups do not
/// disturb the structure under test. Every representative is a member of its component, identical for all members, and - compared
/// with the previous step - unchanged unless a union or reset happened in between. (Which member it is, is the implementation's
/// business: the forest root, the smallest element, ...)
fn representatives(d: &DSU, m: &Model, step: usize, prev: Option<&[usize]>, unioned: bool) -> Result<Vec<usize>, Violation> {
    let n = m.label.len();
    let mut probe = d.clone();
    let reps: Vec<usize> = (0..n).map(|v| probe.par(v)).collect();
    for v in 0..n {
        vensure!(reps[v] < n && m.label[reps[v]] == m.label[v], "representative-outside-component", "step {}: par({}) = {}, which the model puts in another component", step, v, reps[v]);
        for w in 0..v {
            if m.label[w] == m.label[v] {
                vensure!(reps[w] == reps[v], "two-representatives-in-one-component", "step {}: {} and {} are connected but par gives {} and {}", step, w, v, reps[w], reps[v]);
                break;
            }
        }
    }
    if let (Some(p), false) = (prev, unioned) {
        if p.len() == n {
            for v in 0..n {
                vensure!(p[v] == reps[v], "representative-changed", "step {}: par({}) changed from {} to {} without a union", step, v, p[v], reps[v]);
            }
        }
    }
    Ok(reps)
}

fn run_case(c: &Case) -> CaseResult {
    let mut st = CaseStats::default();
    st.size = c.ops.len() as u64;
    let n0 = (c.n as usize).max(1);
    let mut d = DSU::new(n0);
    let mut m = Model::new(n0);
    let mut roots = check_forest(&d, &m, 0, None, false)?;
    let mut reps = representatives(&d, &m, 0, None, false)?;
    let mut big_union = false;
    // (frozen structure, model snapshot) pairs left behind by CloneSwap
    let mut frozen: Vec<(DSU, Vec<usize>)> = Vec::new();
    for (i, op) in c.ops.iter().enumerate() {
        let step = i + 1;
        let n = m.label.len();
        let mut unioned = false;
        match op {
            Op::Un { u, v } | Op::UnRoots { u, v } => {
                let (mut u, mut v) = (pick(*u, n), pick(*v, n));
                if let Op::UnRoots { .. } = op {
                    u = roots[u];
                    v = roots[v];
                    st.label("union-of-roots");
                }
                let (su, sv) = (m.size(u), m.size(v));
                let want = m.un(u, v);
                let got = d.un(u, v);
                vensure!(got == want, "un/return", "step {}: un({},{}) returned {}, model {}", step, u, v, got, want);
                if want && su >= 2 && sv >= 2 {
                    big_union = true;
                    st.label("union-of-two-components>=2");
                }
                unioned = true;
            }
            Op::Par { v } => {
                let v = pick(*v, n);
                let r = d.par(v);
                vensure!(r == reps[v], "par", "step {}: par({}) = {}, the representative of its component was {}", step, v, r, reps[v]);
                if big_union && roots[v] != v {
                    st.nontrivial = true;
                }
            }
            Op::Check { u, v } => {
                let (u, v) = (pick(*u, n), pick(*v, n));
                let got = d.check(u, v);
                let want = m.label[u] == m.label[v];
                vensure!(got == want, "check", "step {}: check({},{}) = {}, model {}", step, u, v, got, want);
                if big_union && (roots[v] != v || roots[u] != u) {
                    st.nontrivial = true;
                }
            }
            Op::Size { v } => {
                let v = pick(*v, n);
                let got = d.size(v);
                vensure!(got == m.size(v), "size", "step {}: size({}) = {}, component has {}", step, v, got, m.size(v));
                if big_union && roots[v] != v {
                    st.nontrivial = true;
                }
            }
            Op::Reset { m: k } => {
                let k = (*k as usize % 64) + 1;
                d.reset(k);
                if k < n {
                    st.label("reset-shrink");
                } else if k > n {
                    st.label("reset-grow");
                }
                m = Model::new(k);
                unioned = true;
                big_union = false;
            }
            Op::ResetMany { m: k, k: times } => {
                let k = (*k as usize % 64) + 1;
                for _ in 0..MANY[*times as usize % MANY.len()] {
                    d.reset(k);
                }
                m = Model::new(k);
                unioned = true;
                big_union = false;
                st.label("reset-repeated-65535-or-more-times");
            }
            Op::CloneFromFrozen { k } => {
                if !frozen.is_empty() {
                    let k = *k as usize % frozen.len();
                    d.clone_from(&frozen[k].0);
                    m = Model { label: frozen[k].1.clone() };
                    unioned = true;
                    big_union = false;
                    st.label("clone_from");
                }
            }
            Op::CloneSwap => {
                let copy = d.clone();
                let old = std::mem::replace(&mut d, copy);
                if frozen.len() < 4 {
                    frozen.push((old, m.label.clone()));
                }
                st.label("clone");
            }
        }
        roots = check_forest(&d, &m, step, Some(&roots), unioned)?;
        reps = representatives(&d, &m, step, Some(&reps), unioned)?;
    }
    // clone independence: every frozen copy still answers from its own snapshot
    for (k, (old, labels)) in frozen.iter_mut().enumerate() {
        let fm = Model { label: labels.clone() };
        check_forest(old, &fm, usize::MAX, None, true).map_err(|v| Violation::new(format!("clone/{}", v.sig), format!("frozen copy {}: {}", k, v.msg)))?;
        let n = labels.len();
        for u in 0..n {
            vensure!(old.size(u) == fm.size(u), "clone/size", "frozen copy {}: size({}) = {}, snapshot {}", k, u, old.size(u), fm.size(u));
            let v = (u * 7 + 3) % n;
            vensure!(old.check(u, v) == (labels[u] == labels[v]), "clone/check", "frozen copy {}: check({},{}) differs from its snapshot", k, u, v);
        }
    }
    Ok(st)
}

fn sel() -> impl Strategy<Value = u16> {
    prop_oneof![5 => any::<u16>(), 1 => Just(0u16), 1 => Just(u16::MAX)]
}

fn op() -> impl Strategy<Value = Op> {
    prop_oneof![
        30 => (sel(), sel()).prop_map(|(u, v)| Op::Un { u, v }),
        20 => (sel(), sel()).prop_map(|(u, v)| Op::UnRoots { u, v }),
        10 => sel().prop_map(|v| Op::Par { v }),
        10 => (sel(), sel()).prop_map(|(u, v)| Op::Check { u, v }),
        10 => sel().prop_map(|v| Op::Size { v }),
        2 => any::<u8>().prop_map(|m| Op::Reset { m }),
        1 => (any::<u8>(), 0u8..6).prop_map(|(m, k)| Op::ResetMany { m, k }),
        2 => Just(Op::CloneSwap),
        2 => any::<u8>().prop_map(|k| Op::CloneFromFrozen { k }),
    ]
}

fn case(max_ops: usize) -> impl Strategy<Value = Case> {
    (prop_oneof![1u8..=8, 1u8..=64, Just(64u8)], prop::collection::vec(op(), 0..max_ops)).prop_map(|(n, ops)| Case { n, ops })
}

// ---- scaled adversarial patterns -------------------------------------------------------------

#[derive(Clone, Debug, Hash, Serialize, Deserialize, PartialEq)]
struct Pat {
    kind: u8,
    n: u32,
    seed: u32,
}

const KINDS: [&str; 6] = ["forward-chain", "backward-chain", "binomial-roots", "big-root-onto-singleton", "singleton-onto-big-root", "random-with-lookups"];

/// depth and size check over the whole forest in O(n), plus connectivity against union-find-free bookkeeping
fn check_big(d: &DSU, comp_count: usize, pat: &Pat, when: &str) -> Result<usize, Violation> {
    let n = d.verif_len();
    let (root, depth) = match forest(d) {
        Some(x) => x,
        None => return Err(Violation::new("forest-cycle", format!("{:?} {}: parent pointers do not form a forest", pat, when))),
    };
    let mut cnt = vec![0usize; n];
    for v in 0..n {
        cnt[root[v]] += 1;
    }
    let roots = cnt.iter().filter(|&&c| c > 0).count();
    vensure!(roots == comp_count, "component-count", "{:?} {}: {} trees, expected {} components", pat, when, roots, comp_count);
    let mut maxd = 0;
    for v in 0..n {
        let sz = cnt[root[v]];
        vensure!(d.verif_size_raw(root[v]) == sz, "size-at-root", "{:?} {}: size stored at root {} is {}, tree has {}", pat, when, root[v], d.verif_size_raw(root[v]), sz);
        let bound = (usize::BITS - 1 - sz.leading_zeros()) as usize;
        vensure!(depth[v] <= bound, "depth", "{:?} {}: vertex {} at depth {} in a component of {} (bound {})", pat, when, v, depth[v], sz, bound);
        maxd = maxd.max(depth[v]);
    }
    Ok(maxd)
}

fn root_of(d: &DSU, mut v: usize) -> usize {
    while d.verif_parent(v) != v {
        v = d.verif_parent(v);
    }
    v
}

fn run_pat(p: &Pat) -> CaseResult {
    let mut st = CaseStats::default();
    let n = p.n as usize;
    st.size = n as u64;
    let kind = p.kind % 6;
    st.label(KINDS[kind as usize]);
    let mut d = DSU::new(n);
    let mut comps = n;
    let mut rng = SplitMix(p.seed as u64 + 5);
    let mut next_cp = 64usize;
    let mut unions = 0usize;
    let mut maxd = 0usize;
    macro_rules! un {
        ($u:expr, $v:expr, $expect:expr) => {{
            let got = d.un($u, $v);
            if let Some(e) = $expect {
                let e: bool = e;
                vensure!(got == e, "un/return", "{:?}: un({},{}) returned {}, expected {}", p, $u, $v, got, e);
            }
            if got {
                comps -= 1;
            }
            unions += 1;
            if unions >= next_cp {
                maxd = maxd.max(check_big(&d, comps, p, "checkpoint")?);
                next_cp *= 4;
            }
        }};
    }
    match kind {
        0 => {
            for i in 0..n - 1 {
                un!(i, i + 1, Some(true));
            }
        }
        1 => {
            for i in (0..n - 1).rev() {
                un!(i + 1, i, Some(true));
            }
        }
        2 => {
            // unite roots of equal-size blocks: the binomial-tree worst case (depth exactly log2 n)
            let mut w = 1;
            while w < n {
                let mut i = 0;
                while i + w < n {
                    let (a, b) = (root_of(&d, i), root_of(&d, i + w));
                    if rng.below(2) == 0 {
                        un!(a, b, Some(true));
                    } else {
                        un!(b, a, Some(true));
                    }
                    i += 2 * w;
                }
                w *= 2;
            }
        }
        3 => {
            for i in 1..n {
                let r = root_of(&d, 0);
                un!(r, i, Some(true));
            }
        }
        4 => {
            for i in 1..n {
                let r = root_of(&d, 0);
                un!(i, r, Some(true));
            }
        }
        _ => {
            for _ in 0..n {
                let (u, v) = (rng.below(n as u64) as usize, rng.below(n as u64) as usize);
                if rng.below(4) == 0 {
                    let _ = d.par(u);
                } else {
                    un!(u, v, None);
                }
            }
        }
    }
    maxd = maxd.max(check_big(&d, comps, p, "end")?);
    // lookups from the deepest vertices (these walk, and compress, the longest paths)
    if let Some((root, depth)) = forest(&d) {
        let mut order: Vec<usize> = (0..n).collect();
        order.sort_by_key(|&v| std::cmp::Reverse(depth[v]));
        // (which member represents a component is the implementation's choice: compare lookups with each other, not with the forest root)
        let mut rep_of_tree: std::collections::HashMap<usize, usize> = Default::default();
        for &v in order.iter().take(8) {
            let r = d.par(v);
            vensure!(r < n && root[r] == root[v], "representative-outside-component", "{:?}: par({}) = {} for a vertex at depth {}, which is not in its component", p, v, r, depth[v]);
            let first = *rep_of_tree.entry(root[v]).or_insert(r);
            vensure!(first == r && d.par(root[v]) == r && d.par(r) == r, "two-representatives-in-one-component", "{:?}: par({}) = {}, but another member of the same component got {}", p, v, r, first);
        }
        check_big(&d, comps, p, "after deepest lookups")?;
    }
    if kind <= 4 && n >= 1 {
        vensure!(comps == 1, "component-count", "{:?}: {} components left after uniting everything", p, comps);
        vensure!(d.size(n / 2) == n, "size", "{:?}: size({}) = {} after uniting all {} elements", p, n / 2, d.size(n / 2), n);
        vensure!(d.check(0, n - 1), "check", "{:?}: check(0, n-1) false after uniting everything", p);
    }
    if n >= 1000 {
        st.nontrivial = true;
    }
    if maxd >= 10 {
        st.label("forest-depth>=10");
    }
    Ok(st)
}

fn real_main() {
    let mut ctx = Ctx::init("C05");
    ctx.rule(
        "Cases are (a) histories over n<=64 of un / un-on-current-roots / par / check / size / reset(grow and shrink; also repeated 65535..196608 times) / clone-and-continue, \
         interpreted against a naive label array; after every operation the whole parent forest is read through the read-only verif \
         hook: every root lies in its component, one root per component, stored size = cardinality, representatives unchanged unless a \
         union or reset happened, depth(v) <= floor(log2(component size)) for every v; frozen clones are re-checked against their snapshot \
         at the end. (b) scaled adversarial patterns (forward/backward chains, binomial unions of equal-size roots, big root onto \
         singleton and the reverse, random with lookups) with generated size/seed up to 10^5 (quick) / 10^6 (thorough), forest checked \
         at checkpoints, then lookups from the eight deepest vertices; the binomial worst case at exactly 2^17, 2^17+1, 2^18 (2^20 thorough) elements (forest depth 17..20). Non-trivial (a) = a union joined two components both of size >= 2 and a later query hit a non-root; (b) = \
         pattern with n >= 1000. Distinct = distinct (sub-check, case).",
    );
    ctx.assume("forest depth is read through rlib_dsu's feature-gated read-only accessors (hook), which do not compress paths");
    ctx.replayer("dsu-history", |v| run_case(&serde_json::from_value::<Case>(v.clone()).expect("case")));
    ctx.replayer("dsu-pattern", |v| run_pat(&serde_json::from_value::<Pat>(v.clone()).expect("pattern")));
    ctx.begin();
    ctx.prop_split("histories", "dsu-history", ctx.n(6_000, 150_000), ctx.parts(), case(ctx.n(80, 300) as usize).boxed(), run_case);
    ctx.prop("short-histories", "dsu-history", ctx.n(6_000, 100_000), case(10), run_case);
    // counters that wrap: unions, then reset() 65535 .. 196608 times on the same object, then everything is looked at again
    let mut many = Vec::new();
    for n in [2u8, 3, 8, 33] {
        for k in 0..6u8 {
            for m in [n - 1, n, n + 4] {
                many.push(Case { n, ops: vec![Op::Un { u: 0, v: 1 }, Op::Un { u: 2, v: 3 }, Op::ResetMany { m: m - 1, k }, Op::Size { v: 0 }, Op::Check { u: 0, v: 1 }, Op::Un { u: 1, v: 2 }, Op::Size { v: 1 }] });
                many.push(Case { n, ops: vec![Op::Un { u: 0, v: 1 }, Op::Reset { m: n + 7 }, Op::Un { u: 0, v: u16::MAX }, Op::ResetMany { m: m - 1, k }, Op::Par { v: 0 }, Op::Par { v: u16::MAX }, Op::Size { v: u16::MAX }] });
            }
        }
    }
    ctx.exhaustive("reset-repeated-many-times", "dsu-history", "n in {2,3,8,33} x {65535, 65536, 65537, 131071, 131072, 196608} resets (same size, smaller, larger) after unions", false, many, run_case);
    let stages: Vec<(u32, u64)> = if ctx.thorough() {
        vec![(100, 20), (1_000, 20), (10_000, 10), (100_000, 6), (1_000_000, 2)]
    } else {
        vec![(100, 10), (1_000, 10), (10_000, 5), (100_000, 2)]
    };
    // the binomial worst case at exact powers of two beyond 2^17 (forest depth 17, 18, 20)
    let deep: Vec<Pat> = if ctx.thorough() { vec![1 << 17, (1 << 17) + 1, 1 << 18, 1 << 20] } else { vec![1 << 17, (1 << 17) + 1, 1 << 18] }
        .into_iter()
        .enumerate()
        .map(|(i, n)| Pat { kind: 2, n, seed: i as u32 })
        .collect();
    ctx.exhaustive("binomial-deep", "dsu-pattern", "binomial unions of equal-size roots at n = 2^17, 2^17+1, 2^18 (2^20 thorough), then lookups of the deepest vertices", false, deep, run_pat);
    for (n, reps) in stages {
        if ctx.violations() > 0 {
            break;
        }
        let lo = n - n / 3;
        let strat = (0u8..6, lo..=n, any::<u32>()).prop_map(|(kind, n, seed)| Pat { kind, n, seed });
        ctx.prop_cfg(&format!("patterns-n{}", n), "dsu-pattern", reps * 6, 64, strat, run_pat);
    }
    ctx.finish();
}

fn main() {
    let h = std::thread::Builder::new().stack_size(1 << 30).spawn(real_main).unwrap();
    let _ = h.join();
}
