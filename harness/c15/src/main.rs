//! C15: combinatorial iterators enumerate exactly the specified set, once each, in order.

use proptest::prelude::*;
use rlib_iter::*;
use serde::{Deserialize, Serialize};
use vcore::{vensure, CaseResult, CaseStats, Ctx, Violation};

#[derive(Clone, Debug, Hash, Serialize, Deserialize, PartialEq)]
enum Case {
    /// type index (0 i8,1 u8,2 i16,3 u16,4 i32,5 u32,6 i64,7 u64,8 i128,9 u128,10 isize,11 usize), mask as raw u128 bits
    Sub { ty: u8, bits: u128 },
    Sup { ty: u8, bits: u128 },
    NextPerm { data: Vec<u8> },
    IterPerm { data: Vec<u8> },
    /// kind 0: 4-neighbours, 1: diagonal, 2: 8-neighbours
    Grid { kind: u8, n: u8, m: u8, i: u8, j: u8 },
}

const WIDTH: [u32; 12] = [8, 8, 16, 16, 32, 32, 64, 64, 128, 128, 64, 64];

fn bit_positions(x: u128, w: u32) -> Vec<u32> {
    (0..w).filter(|b| (x >> b) & 1 == 1).collect()
}

/// all submasks of x in decreasing unsigned order, by expanding the bit positions
fn submasks_ref(x: u128, w: u32) -> Vec<u128> {
    let pos = bit_positions(x, w);
    let k = pos.len();
    (0..(1u64 << k)).rev().map(|sel| pos.iter().enumerate().filter(|(i, _)| (sel >> i) & 1 == 1).fold(0u128, |a, (_, &p)| a | (1u128 << p))).collect()
}

/// all supermasks of x within w bits, increasing unsigned order
fn supermasks_ref(x: u128, w: u32) -> Vec<u128> {
    let full: u128 = if w == 128 { u128::MAX } else { (1u128 << w) - 1 };
    let free = bit_positions(!x & full, w);
    let k = free.len();
    (0..(1u64 << k)).map(|sel| free.iter().enumerate().filter(|(i, _)| (sel >> i) & 1 == 1).fold(x, |a, (_, &p)| a | (1u128 << p))).collect()
}

macro_rules! masks {
    ($t:ty, $ut:ty, $bits:expr, $sub:expr, $w:expr) => {{
        let x = $bits as $ut as $t;
        let got: Vec<u128> = if $sub { iter_submasks(x).map(|v| v as $ut as u128).collect() } else { iter_supermasks(x).map(|v| v as $ut as u128).collect() };
        let xr = $bits as $ut as u128;
        let want = if $sub { submasks_ref(xr, $w) } else { supermasks_ref(xr, $w) };
        (got, want, stringify!($t))
    }};
}

fn check_masks(ty: u8, bits: u128, sub: bool) -> CaseResult {
    let mut st = CaseStats::default();
    let w = WIDTH[ty as usize % 12];
    let full: u128 = if w == 128 { u128::MAX } else { (1u128 << w) - 1 };
    let b = bits & full;
    let free = if sub { (b.count_ones()) as u32 } else { w - b.count_ones() };
    if free > 16 {
        st.label("mask-too-wide-skipped");
        return Ok(st);
    }
    let (got, want, name) = match ty % 12 {
        0 => masks!(i8, u8, b, sub, w),
        1 => masks!(u8, u8, b, sub, w),
        2 => masks!(i16, u16, b, sub, w),
        3 => masks!(u16, u16, b, sub, w),
        4 => masks!(i32, u32, b, sub, w),
        5 => masks!(u32, u32, b, sub, w),
        6 => masks!(i64, u64, b, sub, w),
        7 => masks!(u64, u64, b, sub, w),
        8 => masks!(i128, u128, b, sub, w),
        9 => masks!(u128, u128, b, sub, w),
        10 => masks!(isize, usize, b, sub, w),
        _ => masks!(usize, usize, b, sub, w),
    };
    let what = if sub { "iter_submasks" } else { "iter_supermasks" };
    if got != want {
        let k = got.iter().zip(want.iter()).position(|(a, b)| a != b).unwrap_or(got.len().min(want.len()));
        return Err(Violation::new(
            what,
            format!(
                "{}::<{}>({:#x}) yields {} values, expected {}; first difference at position {}: got {:?}, expected {:?}",
                what, name, b, got.len(), want.len(), k, got.get(k).map(|v| format!("{:#x}", v)), want.get(k).map(|v| format!("{:#x}", v))
            ),
        ));
    }
    if ty % 12 == 1 && want.len() <= 64 {
        let x = b as u8;
        let w8: Vec<u8> = want.iter().map(|&v| v as u8).collect();
        if sub {
            vcore::adaptors_agree("iter_submasks::<u8>", &w8, b as usize, || iter_submasks(x))?;
        } else {
            vcore::adaptors_agree("iter_supermasks::<u8>", &w8, b as usize, || iter_supermasks(x))?;
        }
    }
    if (b >> (w - 1)) & 1 == 1 {
        st.nontrivial = true;
        st.label("sign-bit-set");
    }
    st.size = got.len() as u64;
    Ok(st)
}

/// lexicographic successor by definition: the smallest arrangement greater than `d` among all distinct arrangements
fn successor_ref(d: &[u8]) -> Option<Vec<u8>> {
    // classic algorithm written independently from the end, using sort for the tail
    let n = d.len();
    for i in (0..n.saturating_sub(1)).rev() {
        // candidates: smallest element in the tail greater than d[i]
        let tail = &d[i + 1..];
        if let Some(&c) = tail.iter().filter(|&&x| x > d[i]).min() {
            let mut out = d[..i].to_vec();
            out.push(c);
            let mut rest: Vec<u8> = tail.to_vec();
            let p = rest.iter().position(|&x| x == c).unwrap();
            rest[p] = d[i];
            rest.sort();
            out.extend(rest);
            return Some(out);
        }
    }
    None
}

/// element types other than small integers, each with an order-preserving encoding of the u8 alphabet
#[derive(Clone, Debug)]
struct Rev(u8);
impl PartialEq for Rev {
    fn eq(&self, o: &Self) -> bool {
        self.0 == o.0
    }
}
impl Eq for Rev {}
impl PartialOrd for Rev {
    fn partial_cmp(&self, o: &Self) -> Option<std::cmp::Ordering> {
        Some(self.cmp(o))
    }
}
impl Ord for Rev {
    fn cmp(&self, o: &Self) -> std::cmp::Ordering {
        o.0.cmp(&self.0)
    }
}
/// ordered and compared by `key` only (lawful: Eq agrees with Ord); `tag` tells the copies of equal elements apart
#[derive(Clone, Debug)]
struct Keyed {
    key: u8,
    tag: u8,
}
impl PartialEq for Keyed {
    fn eq(&self, o: &Self) -> bool {
        self.key == o.key
    }
}
impl Eq for Keyed {}
impl PartialOrd for Keyed {
    fn partial_cmp(&self, o: &Self) -> Option<std::cmp::Ordering> {
        Some(self.cmp(o))
    }
}
impl Ord for Keyed {
    fn cmp(&self, o: &Self) -> std::cmp::Ordering {
        self.key.cmp(&o.key)
    }
}

/// the same step / listing through another element type must be the image of the u8 result
fn typed<T: Ord + Clone + std::fmt::Debug>(ty: &str, data: &[u8], enc: impl Fn(u8, usize) -> T, dec: impl Fn(&T) -> u8, want_step: (&[u8], bool), want_list: Option<&[Vec<u8>]>) -> Result<(), Violation> {
    let mut d: Vec<T> = data.iter().enumerate().map(|(i, &x)| enc(x, i)).collect();
    let r = next_permutation(&mut d);
    let got: Vec<u8> = d.iter().map(&dec).collect();
    vensure!(r == want_step.1 && got == want_step.0, "next_permutation/element-type", "next_permutation over {} of {:?} -> {} {:?}, expected {} {:?}", ty, data, r, got, want_step.1, want_step.0);
    if let Some(want) = want_list {
        let list: Vec<Vec<u8>> = iter_permutations(data.iter().enumerate().map(|(i, &x)| enc(x, i)).collect::<Vec<T>>()).take(want.len() + 1).map(|v| v.iter().map(&dec).collect()).collect();
        vensure!(list == want, "iter_permutations/element-type", "iter_permutations over {} of {:?} yields {} arrangements (expected {}), first difference at {:?}", ty, data, list.len(), want.len(), list.iter().zip(want.iter()).position(|(a, b)| a != b));
    }
    Ok(())
}

fn all_types(data: &[u8], want_step: (&[u8], bool), want_list: Option<&[Vec<u8>]>) -> Result<(), Violation> {
    typed("Rev (reversed Ord)", data, |x, _| Rev(255 - x), |t| 255 - t.0, want_step, want_list)?;
    typed("String", data, |x, _| format!("{:03}", x), |t| t.parse().unwrap(), want_step, want_list)?;
    typed("(i128, bool)", data, |x, _| ((x / 2) as i128 - 60, x % 2 == 1), |t| ((t.0 + 60) * 2) as u8 + t.1 as u8, want_step, want_list)?;
    typed("Keyed (ordered by key only)", data, |x, i| Keyed { key: x, tag: i as u8 }, |t| t.key, want_step, want_list)?;
    // the copies of equal keys are all still there
    let mut d: Vec<Keyed> = data.iter().enumerate().map(|(i, &x)| Keyed { key: x, tag: i as u8 }).collect();
    next_permutation(&mut d);
    let mut tags: Vec<(u8, u8)> = d.iter().map(|k| (k.key, k.tag)).collect();
    tags.sort();
    let mut want_tags: Vec<(u8, u8)> = data.iter().enumerate().map(|(i, &x)| (x, i as u8)).collect();
    want_tags.sort();
    vensure!(tags == want_tags, "next_permutation/element-type", "next_permutation over Keyed of {:?}: the elements are no longer the same objects: {:?}", data, d);
    Ok(())
}

fn check_next_perm(data: &[u8]) -> CaseResult {
    let mut st = CaseStats::default();
    let mut d = data.to_vec();
    let r = next_permutation(&mut d);
    {
        let mut sorted = data.to_vec();
        sorted.sort();
        match successor_ref(data) {
            Some(w) => all_types(data, (&w, true), None)?,
            None => all_types(data, (&sorted, false), None)?,
        }
    }
    match successor_ref(data) {
        Some(want) => {
            vensure!(r && d == want, "next_permutation", "next_permutation({:?}) -> {} {:?}, expected true {:?}", data, r, d, want);
        }
        None => {
            let mut sorted = data.to_vec();
            sorted.sort();
            vensure!(!r && d == sorted, "next_permutation/wrap", "next_permutation({:?}) at the last arrangement -> {} {:?}, expected false {:?}", data, r, d, sorted);
            st.label("wrap-to-sorted");
        }
    }
    let mut s = data.to_vec();
    s.sort();
    s.dedup();
    if s.len() < data.len() {
        st.nontrivial = true;
        st.label("repeated-elements");
    }
    Ok(st)
}

fn check_iter_perm(data: &[u8]) -> CaseResult {
    let mut st = CaseStats::default();
    // expected: distinct arrangements in lexicographic order, generated by definition (recursive choice)
    fn rec(rem: &mut Vec<u8>, cur: &mut Vec<u8>, out: &mut Vec<Vec<u8>>) {
        if rem.is_empty() {
            out.push(cur.clone());
            return;
        }
        let mut last: Option<u8> = None;
        for i in 0..rem.len() {
            if Some(rem[i]) == last {
                continue;
            }
            last = Some(rem[i]);
            let x = rem.remove(i);
            cur.push(x);
            rec(rem, cur, out);
            cur.pop();
            rem.insert(i, x);
        }
    }
    let mut rem = data.to_vec();
    rem.sort();
    let mut want = Vec::new();
    rec(&mut rem, &mut Vec::new(), &mut want);
    // bounded: a broken successor function must be reported, not exhaust memory
    let got: Vec<Vec<u8>> = iter_permutations(data.to_vec()).take(want.len() + 1).collect();
    if got != want {
        let k = got.iter().zip(want.iter()).position(|(a, b)| a != b).unwrap_or(got.len().min(want.len()));
        return Err(Violation::new(
            "iter_permutations",
            format!("iter_permutations({:?}) yields {} arrangements, expected {}; first difference at {}: got {:?}, expected {:?}", data, got.len(), want.len(), k, got.get(k), want.get(k)),
        ));
    }
    st.size = got.len() as u64;
    if want.len() <= 1300 {
        let mut sorted = data.to_vec();
        sorted.sort();
        let step = successor_ref(data);
        all_types(data, (step.as_deref().unwrap_or(&sorted), step.is_some()), Some(&want))?;
        st.label("element-types-checked");
    }
    if want.len() <= 130 {
        vcore::adaptors_agree(&format!("iter_permutations({:?})", data), &want, data.iter().map(|&x| x as usize).sum::<usize>() + data.len(), || iter_permutations(data.to_vec()))?;
        st.label("iterator-adaptors-checked");
    }
    let mut s = data.to_vec();
    s.sort();
    s.dedup();
    if s.len() < data.len() {
        st.nontrivial = true;
        st.label("repeated-elements");
    }
    Ok(st)
}

fn check_grid(kind: u8, n: u8, m: u8, i: u8, j: u8) -> CaseResult {
    let mut st = CaseStats::default();
    let (n, m, i, j) = (n as usize, m as usize, i as usize, j as usize);
    // fixed offset orders pinned by the repository's own tests
    let offs: &[(i64, i64)] = match kind % 3 {
        0 => &[(0, 1), (-1, 0), (0, -1), (1, 0)],
        1 => &[(-1, 1), (-1, -1), (1, -1), (1, 1)],
        _ => &[(0, 1), (-1, 1), (-1, 0), (-1, -1), (0, -1), (1, -1), (1, 0), (1, 1)],
    };
    let want: Vec<(usize, usize)> = offs
        .iter()
        .map(|&(dx, dy)| (i as i64 + dx, j as i64 + dy))
        .filter(|&(x, y)| x >= 0 && y >= 0 && (x as usize) < n && (y as usize) < m)
        .map(|(x, y)| (x as usize, y as usize))
        .collect();
    let got: Vec<(usize, usize)> = match kind % 3 {
        0 => iter_neighbours_4(n, m, i, j).collect(),
        1 => iter_neighbours_4d(n, m, i, j).collect(),
        _ => iter_neighbours_8(n, m, i, j).collect(),
    };
    vensure!(got == want, "neighbours", "kind {} grid {}x{} cell ({},{}): got {:?}, expected {:?}", kind % 3, n, m, i, j, got, want);
    match kind % 3 {
        0 => vcore::adaptors_agree("iter_neighbours_4", &want, i + j, || iter_neighbours_4(n, m, i, j))?,
        1 => vcore::adaptors_agree("iter_neighbours_4d", &want, i + j, || iter_neighbours_4d(n, m, i, j))?,
        _ => vcore::adaptors_agree("iter_neighbours_8", &want, i + j, || iter_neighbours_8(n, m, i, j))?,
    }
    if i == 0 || j == 0 || i == n - 1 || j == m - 1 {
        st.nontrivial = true;
        st.label("border-cell");
    }
    Ok(st)
}

fn run_case(c: &Case) -> CaseResult {
    match c {
        Case::Sub { ty, bits } => check_masks(*ty, *bits, true),
        Case::Sup { ty, bits } => check_masks(*ty, *bits, false),
        Case::NextPerm { data } => check_next_perm(data),
        Case::IterPerm { data } => {
            if data.len() > 9 {
                return Ok(CaseStats::default());
            }
            check_iter_perm(data)
        }
        Case::Grid { kind, n, m, i, j } => {
            if *n == 0 || *m == 0 || i >= n || j >= m {
                return Ok(CaseStats::default());
            }
            check_grid(*kind, *n, *m, *i, *j)
        }
    }
}

/// all sequences over {0,1,2} of length <= maxlen
fn ternary(maxlen: usize) -> Vec<Vec<u8>> {
    let mut out = vec![vec![]];
    let mut layer = vec![vec![]];
    for _ in 0..maxlen {
        let mut next = Vec::new();
        for s in &layer {
            for d in 0..3u8 {
                let mut t: Vec<u8> = s.clone();
                t.push(d);
                next.push(t);
            }
        }
        out.extend(next.iter().cloned());
        layer = next;
    }
    out
}

fn all_perms(k: usize) -> Vec<Vec<u8>> {
    iter_perm_ref((0..k as u8).collect())
}
fn iter_perm_ref(v: Vec<u8>) -> Vec<Vec<u8>> {
    if v.len() <= 1 {
        return vec![v];
    }
    let mut out = Vec::new();
    for i in 0..v.len() {
        let mut rest = v.clone();
        let x = rest.remove(i);
        for mut p in iter_perm_ref(rest) {
            p.insert(0, x);
            out.push(p);
        }
    }
    out
}

fn wide_mask() -> impl Strategy<Value = (u8, u128, bool)> {
    // types 4..12; popcount <= 12 for submasks, >= BITS-12 for supermasks, top bit often set
    (4u8..12, prop::collection::vec(0u32..128, 0..=12), any::<bool>(), any::<bool>()).prop_map(|(ty, pos, top, sub)| {
        let w = WIDTH[ty as usize];
        let mut x = 0u128;
        for p in pos {
            x |= 1u128 << (p % w);
        }
        if top {
            x |= 1u128 << (w - 1);
        }
        let full: u128 = if w == 128 { u128::MAX } else { (1u128 << w) - 1 };
        (ty, if sub { x } else { !x & full }, sub)
    })
}

fn main() {
    let mut ctx = Ctx::init("C15");
    ctx.rule(
        "Cases: iter_submasks / iter_supermasks for every mask of i8/u8 (quick) and also i16/u16 (thorough), and for generated masks of \
         i32..u128, isize, usize with at most 12 free bits (top bit often set), compared with the set {s : s&x==s} (resp. supermasks) \
         obtained by expanding the bit positions, in strictly decreasing (increasing) unsigned order ending in 0 (all-ones); \
         next_permutation on all sequences over {0,1,2} of length <= 7 and all permutations of <= 7 (quick) / 8 (thorough) distinct \
         values plus random multisets of length <= 9, compared with an independently written successor function (false + sorted at the \
         last arrangement), and the same step through other element types - a reversed Ord, String, (i128, bool), a type ordered by a key only whose equal copies must all survive - must be the image of the u8 step; iter_permutations compared with the recursively generated list of distinct arrangements in lexicographic \
         order; the three neighbour iterators on all grids up to 7x7 and all cells against the fixed offset order filtered by bounds. \
         Non-trivial = mask with the sign bit set, sequence with a repeated element, border cell. Distinct = distinct (sub-check, case).",
    );
    ctx.replayer("iter-case", |v| run_case(&serde_json::from_value::<Case>(v.clone()).expect("case")));
    ctx.begin();
    for ty in 0..2u8 {
        let name = ["i8", "u8"][ty as usize];
        ctx.exhaustive(&format!("submasks-all-{}", name), "iter-case", "all 256 masks", true, (0..256u128).map(move |bits| Case::Sub { ty, bits }), run_case);
        ctx.exhaustive(&format!("supermasks-all-{}", name), "iter-case", "all 256 masks", true, (0..256u128).map(move |bits| Case::Sup { ty, bits }), run_case);
    }
    {
        // 16-bit: masks with <= 16 free bits are all of them; quick takes every 7th mask plus structured ones, thorough all
        let step = ctx.n(7, 1) as usize;
        for ty in 2..4u8 {
            let name = ["i16", "u16"][ty as usize - 2];
            let exh = step == 1;
            let masks: Vec<u128> = (0..65536u128).step_by(step).chain([0xffffu128, 0x8000, 0x7fff, 0xff00, 0x00ff, 0xaaaa, 0x5555]).collect();
            // full submask enumeration of a 16-bit mask is up to 65536 elements: bound total work by popcount
            ctx.exhaustive(&format!("submasks-{}", name), "iter-case", "masks of the 16-bit type with popcount <= 10 (every mask in the thorough tier)", exh, masks.iter().filter(|m| m.count_ones() <= 10 || exh).map(move |&bits| Case::Sub { ty, bits }).collect::<Vec<_>>(), run_case);
            ctx.exhaustive(&format!("supermasks-{}", name), "iter-case", "masks of the 16-bit type with at least 6 bits set (every mask in the thorough tier)", exh, masks.iter().filter(|m| m.count_ones() >= 6 || exh).map(move |&bits| Case::Sup { ty, bits }).collect::<Vec<_>>(), run_case);
        }
    }
    ctx.prop_split("wide-masks", "iter-case", ctx.n(6_000, 1_500_000), ctx.parts(), wide_mask().prop_map(|(ty, bits, sub)| if sub { Case::Sub { ty, bits } } else { Case::Sup { ty, bits } }).boxed(), run_case);
    ctx.exhaustive("next-permutation-ternary", "iter-case", "all sequences over {0,1,2} of length <= 7", true, ternary(7).into_iter().map(|data| Case::NextPerm { data }), run_case);
    let pk = ctx.n(7, 8) as usize;
    for k in 0..=pk {
        ctx.exhaustive(&format!("next-permutation-distinct-{}", k), "iter-case", &format!("all permutations of {} distinct values", k), true, all_perms(k).into_iter().map(|data| Case::NextPerm { data }), run_case);
    }
    ctx.exhaustive("iter-permutations-ternary", "iter-case", "all sorted-or-not sequences over {0,1,2} of length <= 6 as input", true, ternary(6).into_iter().map(|data| Case::IterPerm { data }), run_case);
    ctx.exhaustive("iter-permutations-distinct", "iter-case", "0..k for k <= 8", true, (0..=8usize).map(|k| Case::IterPerm { data: (0..k as u8).rev().collect() }), run_case);
    ctx.prop("multisets", "iter-case", ctx.n(4_000, 600_000), prop::collection::vec(0u8..5, 0..=9).prop_flat_map(|data| prop_oneof![Just(Case::NextPerm { data: data.clone() }), Just(Case::IterPerm { data: data.clone() })]), run_case);
    let grids = (1..=7u8).flat_map(|n| (1..=7u8).flat_map(move |m| (0..n).flat_map(move |i| (0..m).flat_map(move |j| (0..3u8).map(move |kind| Case::Grid { kind, n, m, i, j })))));
    ctx.exhaustive("neighbours-all-grids", "iter-case", "all grids 1..=7 x 1..=7, all cells, three neighbour kinds", true, grids, run_case);
    ctx.finish();
}
