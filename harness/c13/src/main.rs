//! C13: sieve tables vs trial division (every limit N up to a few thousand) and an independent
//! odd-only Eratosthenes (large limits).

use rlib_sieve::Sieve;
use serde::{Deserialize, Serialize};
use vcore::{vensure, CaseResult, CaseStats, Ctx};

#[derive(Clone, Debug, Hash, Serialize, Deserialize, PartialEq)]
struct Case {
    limit: u32,
    /// true: compare with the independent sieve (large limits); false: trial division
    big: bool,
}

fn least_factor(n: u32) -> u32 {
    let mut p = 2;
    while p * p <= n {
        if n % p == 0 {
            return p;
        }
        p += 1;
    }
    n
}

/// independent odd-only sieve of Eratosthenes: least prime factor table
fn reference_lpf(n: usize) -> Vec<u32> {
    let mut lpf = vec![0u32; n + 1];
    for i in (2..=n).step_by(2) {
        lpf[i] = 2;
    }
    let mut i = 3;
    while i <= n {
        if lpf[i] == 0 {
            lpf[i] = i as u32;
            let mut j = i * i;
            while j <= n {
                if lpf[j] == 0 {
                    lpf[j] = i as u32;
                }
                j += 2 * i;
            }
        }
        i += 2;
    }
    lpf
}

fn run_case(c: &Case) -> CaseResult {
    let mut st = CaseStats::default();
    let n = c.limit as usize;
    st.size = n as u64;
    let s = Sieve::new(n);
    let lpf: Vec<u32> = if c.big { reference_lpf(n) } else { (0..=n as u32).map(|k| if k < 2 { 0 } else { least_factor(k) }).collect() };
    let mut primes: Vec<i32> = Vec::new();
    for k in 0..=n {
        let isp = k >= 2 && lpf[k] == k as u32;
        vensure!(s.is_prime(k as i32) == isp, "is_prime", "limit {}: is_prime({}) = {}, expected {}", n, k, s.is_prime(k as i32), isp);
        if k >= 2 {
            vensure!(s.min_prime(k as i32) == lpf[k] as i32, "min_prime", "limit {}: min_prime({}) = {}, least prime factor is {}", n, k, s.min_prime(k as i32), lpf[k]);
        }
        if isp {
            primes.push(k as i32);
        }
    }
    vensure!(
        *s.primes() == primes,
        "primes",
        "limit {}: primes() has {} entries (last {:?}), expected {} (last {:?})",
        n, s.primes().len(), s.primes().last(), primes.len(), primes.last()
    );
    // factorisation of every k (all k for small limits, a stride sample plus the tail for large ones)
    let step = if c.big { (n / 20_000).max(1) } else { 1 };
    let mut k = 1;
    let mut composite_with_big_lpf = false;
    while k <= n {
        let f: Vec<(i32, i32)> = s.factorize(k as i32).collect();
        let mut want = Vec::new();
        let mut r = k as u32;
        while r > 1 {
            let p = lpf[r as usize];
            let mut e = 0;
            while r % p == 0 {
                r /= p;
                e += 1;
            }
            want.push((p as i32, e));
        }
        vensure!(f == want, "factorize", "limit {}: factorize({}) = {:?}, expected {:?}", n, k, f, want);
        if !c.big && k % 7 == 0 && n % 50 == 0 {
            vcore::adaptors_agree(&format!("limit {} factorize({})", n, k), &want, k, || s.factorize(k as i32))?;
        }
        if k >= 4 && lpf[k] != k as u32 && (lpf[k] as usize * lpf[k] as usize) > n / 2 {
            composite_with_big_lpf = true;
        }
        k += if k + 50 >= n { 1 } else { step };
    }
    // N within 2 of a prime or of a prime square
    let near = (n.saturating_sub(2)..=n + 2).any(|m| m >= 2 && least_factor(m as u32) == m as u32 || { let r = (m as f64).sqrt() as usize; r >= 2 && r * r == m && least_factor(r as u32) == r as u32 });
    if near && (composite_with_big_lpf || n < 9) {
        st.nontrivial = true;
    }
    if near {
        st.label("limit-within-2-of-prime-or-prime-square");
    }
    if c.big {
        st.label("large-limit-vs-independent-sieve");
        st.nontrivial = true;
    }
    Ok(st)
}

/// Dense sweep: EVERY limit in a range, against the prefix of one shared reference table (so that a limit's position relative to any
/// internal block size - 4096, 30000, 32768, 49152, 65536, ... - is hit whatever that size is); factorize on the last 48 values.
fn dense_case(c: &Case, lpf: &[u32]) -> CaseResult {
    let n = c.limit as usize;
    let s = Sieve::new(n);
    let mut count = 0usize;
    for k in 0..=n {
        let isp = k >= 2 && lpf[k] == k as u32;
        if s.is_prime(k as i32) != isp || (k >= 2 && s.min_prime(k as i32) != lpf[k] as i32) {
            // let the full comparison word the report (and provide the replayable case)
            return run_case(&Case { limit: c.limit, big: true });
        }
        count += isp as usize;
    }
    if s.primes().len() != count || s.primes().iter().any(|&p| lpf[p as usize] != p as u32) {
        return run_case(&Case { limit: c.limit, big: true });
    }
    for k in n.saturating_sub(48).max(1)..=n {
        let f: Vec<(i32, i32)> = s.factorize(k as i32).collect();
        let mut r = k as u32;
        let mut want = Vec::new();
        while r > 1 {
            let p = lpf[r as usize];
            let mut e = 0;
            while r % p == 0 {
                r /= p;
                e += 1;
            }
            want.push((p as i32, e));
        }
        if f != want {
            return run_case(&Case { limit: c.limit, big: true });
        }
    }
    let mut st = CaseStats::default();
    st.size = n as u64;
    st.nontrivial = true;
    Ok(st)
}

fn main() {
    let mut ctx = Ctx::init("C13");
    ctx.rule(
        "A case is a limit N: Sieve::new(N) is compared element by element with trial division for every N in 0..=1500 (quick) / 0..=12000 \
         (thorough), and - against one shared reference table, factorize on the last 48 values - for EVERY N up to 66000 in the release build and 33000 in the debug-assertion build (140000 / 70000 thorough), so that a limit's position relative to any internal block size is hit whatever that size is - min_prime(n) for 2<=n<=N, is_prime(n) for 0<=n<=N, primes() = ascending primes <= N, factorize(n) = strictly \
         increasing primes with exact exponents for every 1<=n<=N - and with an independent odd-only Eratosthenes for N = 10^6 and 10^7 (plus 2^24+84 and 1.7*10^7 in the release build; 3*10^7 and 2^25+68 thorough) plus limits adjacent to them, for every multiple of 4096 up to 2^20 (1024 up to 2^21 thorough), and for generated limits in 4001..300000 biased to prime squares and powers of two +-2 (factorize on a stride sample and the last 50 values there). Non-trivial = N within \
         2 of a prime or prime square and containing a composite whose least prime squared exceeds N/2, or a large limit. Distinct = \
         distinct limits.",
    );
    ctx.replayer("sieve-case", |v| run_case(&serde_json::from_value::<Case>(v.clone()).expect("case")));
    ctx.begin();
    let top = ctx.n(1500, 12_000) as u32;
    ctx.exhaustive("every-limit", "sieve-case", &format!("every limit N in 0..={}", top), true, (0..=top).map(|limit| Case { limit, big: false }), run_case);
    {
        let dense_top = if cfg!(debug_assertions) { ctx.n(33_000, 70_000) } else { ctx.n(66_000, 140_000) } as u32;
        let table = reference_lpf(dense_top as usize);
        ctx.exhaustive("every-limit-dense", "sieve-case", &format!("every limit N in {}..={} against one shared reference table", top + 1, dense_top), true, (top + 1..=dense_top).map(|limit| Case { limit, big: true }), |c| dense_case(c, &table));
    }
    let big: Vec<u32> = if ctx.thorough() { vec![999_983, 1_000_000, 1_000_003, 2_627_641, 9_999_991, 10_000_000, 16_777_216, 16_777_300, 30_000_000, 33_554_500] } else { if cfg!(debug_assertions) { vec![999_983, 1_000_000, 1_000_003, 1_018_081, 2_627_641, 10_000_000] } else { vec![999_983, 1_000_000, 1_000_003, 1_018_081, 2_627_641, 10_000_000, 16_777_300, 17_000_000] } };
    ctx.exhaustive("large-limits", "sieve-case", "limits around 10^6 (and 10^7 in the thorough tier), element by element against an independent sieve", false, big.into_iter().map(|limit| Case { limit, big: true }), run_case);
    // limits at multiples of typical block sizes (the position of N relative to an internal block boundary):
    // every multiple of 4096 up to 2^20 (quick) / of 1024 up to 2^21 (thorough), and the neighbours of the 16 KiB ones
    {
        let (step, top) = if ctx.thorough() { (1024u32, 1u32 << 21) } else { (4096u32, 1u32 << 20) };
        let mut ls: Vec<u32> = Vec::new();
        let mut k = step;
        while k <= top {
            ls.push(k);
            if k % 16384 == 0 {
                ls.push(k - 1);
                ls.push(k + 1);
            }
            k += step;
        }
        ctx.exhaustive("block-boundary-limits", "sieve-case", &format!("every multiple of {} up to {} (and +-1 around multiples of 16384)", step, top), false, ls.into_iter().map(|limit| Case { limit, big: true }), run_case);
    }
    // limits between the exhaustive block and 10^6: generated, biased to primes / prime squares / powers of two +-1
    use proptest::prelude::*;
    let lim = prop_oneof![
        3 => 4001u32..=300_000,
        2 => (2u32..=547).prop_map(|p| p * p).prop_flat_map(|q| (Just(q), -2i32..=2)).prop_map(|(q, d)| (q as i64 + d as i64).max(2) as u32),
        2 => (12u32..=18, -2i32..=2).prop_map(|(k, d)| ((1i64 << k) + d as i64) as u32),
        1 => prop::sample::select(vec![65_521u32, 65_536, 65_537, 131_071, 131_072, 131_074, 262_144, 99_991, 100_003]),
    ];
    ctx.prop_cfg("sampled-limits", "sieve-case", ctx.n(200, 20_000), 200, lim.prop_map(|limit| Case { limit, big: true }), run_case);
    ctx.finish();
}
