fn main() {
    c10::real_main();
}
