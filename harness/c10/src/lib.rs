//! C10: intersection points lie on both primitives; kinds agree with exact geometry away from kind boundaries.

use proptest::prelude::*;
use rlib_geometry::circle::{Circle, PointPosition};
use rlib_geometry::line::Line;
use rlib_geometry::point::Point;
use rlib_geometry::util::{intersect_cc, intersect_cl, intersect_ll, CircleIntersection, CircleLineIntersection};
use serde::{Deserialize, Serialize};
use vcore::{vensure, CaseResult, CaseStats, Ctx, Violation};

type P2 = (i32, i32);

#[derive(Clone, Debug, Hash, Serialize, Deserialize, PartialEq)]
pub enum Case {
    LatCC { c1: P2, r1: i32, c2: P2, r2: i32 },
    LatCL { c: P2, r: i32, p: P2, q: P2 },
    LatLL { p1: P2, q1: P2, p2: P2, q2: P2 },
    LatPos { c: P2, r: i32, p: P2 },
    LatContains { p: P2, q: P2, x: P2 },
    /// real-valued, milli-units: centre (x,y)/1000, radii r/1000; second centre at distance chosen by `zone`
    /// (0 far outside, 1 crossing, 2 far inside) with relative position `f`/65536 inside the zone, direction theta/65536 turn
    RealCC { x: i32, y: i32, r1: u32, r2: u32, theta: u16, zone: u8, f: u16 },
    /// line at signed distance from the centre: zone 0 misses, 1 crosses
    RealCL { x: i32, y: i32, r: u32, theta: u16, zone: u8, f: u16, span: u16 },
    /// constructed tangent line at c + r*u(theta); defining points at +-span along the tangent
    TanCL { x: i32, y: i32, r: u32, theta: u16, span: u16 },
    /// constructed tangent circles: |c1c2| = r1+r2 (outside) or |r1-r2| (inside)
    TanCC { x: i32, y: i32, r1: u32, r2: u32, theta: u16, inside: bool },
    /// near-tangent circles, exactly representable: centre (x,y)/1024, radii 5*m/1024, second centre at distance
    /// (r1+r2) or (r1-r2) -+ 5k*2^-30 along an axis or a 3-4-5 direction. `closer` = the side on which they cross.
    NearCC { x: i32, y: i32, m1: u32, m2: u32, dir: u8, k: u32, crossing: bool, inner: bool },
    /// line at distance r -+ 5k*2^-30 from the centre
    NearCL { x: i32, y: i32, m: u32, dir: u8, k: u32, crossing: bool },
    /// real-valued lines through P = (x,y)/2000 (so |P| <= 500) with directions theta and theta + delta, delta = +-10^(-6 f/65535)
    /// (1e-6 .. 1 rad); defining points at signed distances a1,b1 / a2,b2 (milli-units, |.| <= 500, at least 1 apart) from P
    RealLL { x: i32, y: i32, theta: u16, f: u16, neg: bool, a1: i32, b1: i32, a2: i32, b2: i32 },
    /// raw numbers on the 2^-37 grid (|coordinate| <= 1024, radii 1e-3..1e3), as a byte-level fuzzer produces them. `rel` places the second
    /// object relative to the first: 0 as given; 1 same centre, radius ar + k*2^-37; 2 / 3 second centre at distance (ar+br) + k*2^-37 /
    /// |ar-br| + k*2^-37 in the direction of (bx,by). The kind is judged when the configuration is >= 2e-8 from every kind boundary,
    /// the reported points always.
    RawCC { ax: i64, ay: i64, ar: i64, bx: i64, by: i64, br: i64, rel: u8, k: i32 },
    /// circle and the line through P, Q (at least 1e-2 apart). rel 1: the line is moved to distance r + k*2^-37 from the centre
    RawCL { cx: i64, cy: i64, r: i64, px: i64, py: i64, qx: i64, qy: i64, rel: u8, k: i32 },
    /// lines P1Q1, P2Q2. rel 1: Q2 = P2 + (Q1 - P1) rotated by k*2^-37 rad
    RawLL { p1: (i64, i64), q1: (i64, i64), p2: (i64, i64), q2: (i64, i64), rel: u8, k: i32 },
    /// a small circle (radius rs micro-units, 1e-3 .. 1) crossing a big one (radius rb milli-units): its centre lies at distance
    /// rb - rs + margin .. rb + rs - margin from the big centre, margin = 5% of the small radius
    CrossTiny { x: i32, y: i32, rb: u32, rs: u32, theta: u16, f: u16 },
    /// (nearly) concentric circles: radii r and r + delta, centres `off` apart. delta mode 0: 0; 1: fl(1e-9) moved by `ulps` ulps of r;
    /// 2: 10^-(3 + 9 f/65535); off mode 0: 0; 1: 1e-13; 2: 1e-11; 3: 1e-9; 4..7: 1e-155, 2e-162, 1e-200, 1e-300. Inside the tolerance band only the reported points are judged.
    Concentric { x: i32, y: i32, r: u32, theta: u16, dmode: u8, ulps: i8, f: u16, omode: u8, neg: bool },
    /// point at distance r*(1-m), r, r*(1+m) from the centre (zone 0, 1, 2), m = 1e-3 + f/65536
    RealPos { x: i32, y: i32, r: u32, theta: u16, zone: u8, f: u16 },
    /// point P + t*d + off*n of the line through P + a*d and P + b*d; off = 0 (on the line) or |off| >= 1e-3
    RealContains { x: i32, y: i32, theta: u16, a: i32, b: i32, t: i32, off: i32 },
}

const TOL: f64 = 1e-7;

fn pt(p: P2) -> Point {
    Point::new(p.0 as f64, p.1 as f64)
}

fn on_circle(p: &Point, cx: f64, cy: f64, r: f64) -> f64 {
    (((p.x - cx).powi(2) + (p.y - cy).powi(2)).sqrt() - r).abs()
}

/// distance of p from the line through (x1,y1),(x2,y2), computed by the harness from the defining points
fn off_line(p: &Point, x1: f64, y1: f64, x2: f64, y2: f64) -> f64 {
    let (a, b) = (y1 - y2, x2 - x1);
    let c = -(a * x1 + b * y1);
    (a * p.x + b * p.y + c).abs() / (a * a + b * b).sqrt()
}

#[derive(Debug, PartialEq, Clone, Copy)]
enum KCC {
    NoneOutside,
    NoneInside,
    Same,
    TouchInside,
    TouchOutside,
    Intersect,
}

fn kind_cc(r: &CircleIntersection) -> &'static str {
    match r {
        CircleIntersection::None => "None",
        CircleIntersection::Same => "Same",
        CircleIntersection::TouchInside(_) => "TouchInside",
        CircleIntersection::TouchOutside(_) => "TouchOutside",
        CircleIntersection::Intersect(..) => "Intersect",
    }
}

fn check_cc(desc: &str, a: (f64, f64, f64), b: (f64, f64, f64), want: KCC, touch_at: Option<(f64, f64)>) -> Result<(), Violation> {
    let ca = Circle::new(Point::new(a.0, a.1), a.2);
    let cb = Circle::new(Point::new(b.0, b.1), b.2);
    for (first, second, order) in [(&ca, &cb, "a,b"), (&cb, &ca, "b,a")] {
        let res = intersect_cc(first, second);
        let ok = match (&res, want) {
            (CircleIntersection::None, KCC::NoneOutside | KCC::NoneInside) => true,
            (CircleIntersection::Same, KCC::Same) => true,
            (CircleIntersection::TouchInside(_), KCC::TouchInside) => true,
            (CircleIntersection::TouchOutside(_), KCC::TouchOutside) => true,
            (CircleIntersection::Intersect(..), KCC::Intersect) => true,
            _ => false,
        };
        vensure!(ok, "circle-circle/kind", "{} intersect_cc({}) reported {}, exact geometry says {:?}", desc, order, kind_cc(&res), want);
        let pts: Vec<Point> = res.into_iter().collect();
        let expect_n = match want {
            KCC::Intersect => 2,
            KCC::TouchInside | KCC::TouchOutside => 1,
            _ => 0,
        };
        vensure!(pts.len() == expect_n, "circle-circle/point-count", "{} intersect_cc({}) yields {} points for kind {:?}", desc, order, pts.len(), want);
        for p in &pts {
            let (ea, eb) = (on_circle(p, a.0, a.1, a.2), on_circle(p, b.0, b.1, b.2));
            vensure!(
                ea <= TOL && eb <= TOL,
                if expect_n == 1 { "circle-circle/touch-point-off" } else { "circle-circle/point-off" },
                "{} intersect_cc({}) = {} point {:?} is {:.3e} off the first circle and {:.3e} off the second",
                desc, order, kind_cc(&res), p, ea, eb
            );
        }
        if let (Some(t), 1) = (touch_at, pts.len()) {
            let d = ((pts[0].x - t.0).powi(2) + (pts[0].y - t.1).powi(2)).sqrt();
            vensure!(d <= 1e-6, "circle-circle/touch-point-off", "{} touch point {:?} is {:.3e} away from the constructed tangency ({}, {})", desc, pts[0], d, t.0, t.1);
        }
        if pts.len() == 2 {
            // chord length from exact geometry
            // measured from the smaller circle, differences factorised: well conditioned for any size ratio
            let (sm, bg) = if a.2 <= b.2 { (a, b) } else { (b, a) };
            let d = (a.0 - b.0).hypot(a.1 - b.1);
            let h = ((d - bg.2) * (d + bg.2) + sm.2 * sm.2) / (2.0 * d);
            let chord = 2.0 * ((sm.2 - h) * (sm.2 + h)).max(0.0).sqrt();
            let got = ((pts[0].x - pts[1].x).powi(2) + (pts[0].y - pts[1].y).powi(2)).sqrt();
            vensure!((got - chord).abs() <= 1e-6, "circle-circle/chord", "{} the two points are {:.9} apart, exact chord {:.9}", desc, got, chord);
        }
    }
    Ok(())
}

#[derive(Debug, PartialEq, Clone, Copy)]
enum KCL {
    None,
    Touch,
    Intersect,
}

fn check_cl(desc: &str, c: (f64, f64, f64), p: (f64, f64), q: (f64, f64), want: KCL, touch_at: Option<(f64, f64)>) -> Result<(), Violation> {
    let circle = Circle::new(Point::new(c.0, c.1), c.2);
    for (u, v, order) in [(p, q, "p->q"), (q, p, "q->p"), (p, q, "Line::new(3a,3b,3c)"), (q, p, "Line::new(-a/2,-b/2,-c/2)"), (p, q, "Line::new(unit normal * (1 + 6e-10))"), (q, p, "Line::new(unit normal * (1 - 4e-10))"), (p, q, "Line::new(unit normal)")] {
        let line = if order.starts_with("Line::new(unit") {
            // coefficients that are already (almost) normalised: a normal whose length is 1 up to a few 1e-10
            let (a, b) = (u.1 - v.1, v.0 - u.0);
            let len = a.hypot(b);
            let c0 = -(a * u.0 + b * u.1);
            let k = if order.contains("+ 6e-10") { 1.0 + 6e-10 } else if order.contains("- 4e-10") { 1.0 - 4e-10 } else { 1.0 };
            Line::new(a / len * k, b / len * k, c0 / len * k)
        } else if order.starts_with("Line::new") {
            // the same line through the explicit-coefficient constructor, un-normalised on purpose
            let (a, b) = (u.1 - v.1, v.0 - u.0);
            let c0 = -(a * u.0 + b * u.1);
            let k = if order.contains("3a") { 3.0 } else { -0.5 };
            Line::new(k * a, k * b, k * c0)
        } else {
            Line::between(&Point::new(u.0, u.1), &Point::new(v.0, v.1))
        };
        let res = intersect_cl(&circle, &line);
        let (name, ok) = match (&res, want) {
            (CircleLineIntersection::None, k) => ("None", k == KCL::None),
            (CircleLineIntersection::Touch(_), k) => ("Touch", k == KCL::Touch),
            (CircleLineIntersection::Intersect(..), k) => ("Intersect", k == KCL::Intersect),
        };
        vensure!(ok, "circle-line/kind", "{} intersect_cl (line {}) reported {}, exact geometry says {:?}", desc, order, name, want);
        let pts: Vec<Point> = res.into_iter().collect();
        let expect_n = match want {
            KCL::None => 0,
            KCL::Touch => 1,
            KCL::Intersect => 2,
        };
        vensure!(pts.len() == expect_n, "circle-line/point-count", "{} intersect_cl yields {} points for kind {:?}", desc, pts.len(), want);
        for pnt in &pts {
            let (ec, el) = (on_circle(pnt, c.0, c.1, c.2), off_line(pnt, p.0, p.1, q.0, q.1));
            vensure!(
                ec <= TOL && el <= TOL,
                if expect_n == 1 { "circle-line/touch-point-off" } else { "circle-line/point-off" },
                "{} intersect_cl (line {}) = {} point {:?} is {:.3e} off the circle and {:.3e} off the line",
                desc, order, name, pnt, ec, el
            );
        }
        if let (Some(t), 1) = (touch_at, pts.len()) {
            let d = ((pts[0].x - t.0).powi(2) + (pts[0].y - t.1).powi(2)).sqrt();
            vensure!(d <= 1e-6, "circle-line/touch-point-off", "{} touch point {:?} is {:.3e} away from the constructed tangency", desc, pts[0], d);
        }
        if pts.len() == 2 {
            let dist = off_line(&Point::new(c.0, c.1), p.0, p.1, q.0, q.1);
            let chord = 2.0 * (c.2 * c.2 - dist * dist).max(0.0).sqrt();
            let got = ((pts[0].x - pts[1].x).powi(2) + (pts[0].y - pts[1].y).powi(2)).sqrt();
            vensure!((got - chord).abs() <= 1e-6, "circle-line/chord", "{} the two points are {:.9} apart, exact chord {:.9}", desc, got, chord);
        }
    }
    Ok(())
}

fn dir(theta: u16) -> (f64, f64) {
    let t = theta as f64 / 65536.0 * std::f64::consts::TAU;
    (t.cos(), t.sin())
}

pub fn run_case(c: &Case) -> CaseResult {
    if matches!(c, Case::NearCC { .. } | Case::NearCL { .. }) {
        return near(c);
    }
    let mut st = CaseStats::default();
    let desc = format!("{:?}", c);
    match c {
        Case::LatCC { c1, r1, c2, r2 } => {
            if *r1 < 1 || *r2 < 1 {
                return Ok(st);
            }
            let (dx, dy) = ((c1.0 - c2.0) as i64, (c1.1 - c2.1) as i64);
            let d2 = dx * dx + dy * dy;
            let (s, df) = ((r1 + r2) as i64, (r1 - r2).abs() as i64);
            let want = if d2 == 0 && r1 == r2 {
                KCC::Same
            } else if d2 > s * s {
                KCC::NoneOutside
            } else if d2 == s * s {
                KCC::TouchOutside
            } else if d2 > df * df {
                KCC::Intersect
            } else if d2 == df * df {
                KCC::TouchInside
            } else {
                KCC::NoneInside
            };
            check_cc(&desc, (c1.0 as f64, c1.1 as f64, *r1 as f64), (c2.0 as f64, c2.1 as f64, *r2 as f64), want, None)?;
            match want {
                KCC::TouchInside | KCC::TouchOutside => {
                    st.nontrivial = true;
                    st.label("lattice-tangent-circles");
                }
                KCC::Intersect => {
                    st.label("two-point");
                    if *c1 != (0, 0) && *c2 != (0, 0) {
                        st.nontrivial = true;
                    }
                }
                KCC::Same => st.label("same-circle"),
                _ => {}
            }
        }
        Case::LatCL { c, r, p, q } => {
            if *r < 1 || p == q {
                return Ok(st);
            }
            let (ux, uy) = ((q.0 - p.0) as i64, (q.1 - p.1) as i64);
            let (vx, vy) = ((c.0 - p.0) as i64, (c.1 - p.1) as i64);
            let cross = ux * vy - uy * vx;
            let len2 = ux * ux + uy * uy;
            let (l, rr) = (cross * cross, (*r as i64).pow(2) * len2);
            let want = if l > rr {
                KCL::None
            } else if l == rr {
                KCL::Touch
            } else {
                KCL::Intersect
            };
            check_cl(&desc, (c.0 as f64, c.1 as f64, *r as f64), (p.0 as f64, p.1 as f64), (q.0 as f64, q.1 as f64), want, None)?;
            if want == KCL::Touch {
                st.nontrivial = true;
                st.label("lattice-tangent-line");
                if *c != (0, 0) {
                    st.label("tangent-line-circle-not-at-origin");
                }
            } else if want == KCL::Intersect && *c != (0, 0) {
                st.nontrivial = true;
            }
        }
        Case::LatLL { p1, q1, p2, q2 } => {
            if p1 == q1 || p2 == q2 {
                return Ok(st);
            }
            if [p1, q1, p2, q2].iter().any(|p| p.0.abs() > 1000 || p.1.abs() > 1000) {
                st.label("defining-point-beyond-1e3-skipped");
                return Ok(st);
            }
            let (ux, uy) = ((q1.0 - p1.0) as i64, (q1.1 - p1.1) as i64);
            let (vx, vy) = ((q2.0 - p2.0) as i64, (q2.1 - p2.1) as i64);
            let cr = ux * vy - uy * vx;
            let (l1, l2) = (Line::between(&pt(*p1), &pt(*q1)), Line::between(&pt(*p2), &pt(*q2)));
            let res = intersect_ll(&l1, &l2);
            if cr == 0 {
                vensure!(res.is_none(), "line-line/parallel", "{:?}: parallel lines reported to intersect at {:?}", c, res);
                st.label("parallel");
            } else {
                let p = match res {
                    Some(p) => p,
                    None => return Err(Violation::new("line-line/missed", format!("{:?}: non-parallel lattice lines (cross product {}) reported parallel", c, cr))),
                };
                // exact intersection: p1 + t*u, t = cross(p2-p1, v)/cross(u, v)
                let (wx, wy) = ((p2.0 - p1.0) as i64, (p2.1 - p1.1) as i64);
                let t = (wx * vy - wy * vx) as f64 / cr as f64;
                let (ex, ey) = (p1.0 as f64 + t * ux as f64, p1.1 as f64 + t * uy as f64);
                if ex.abs() <= 1e3 && ey.abs() <= 1e3 {
                    let (e1, e2) = (off_line(&p, p1.0 as f64, p1.1 as f64, q1.0 as f64, q1.1 as f64), off_line(&p, p2.0 as f64, p2.1 as f64, q2.0 as f64, q2.1 as f64));
                    vensure!(e1 <= TOL && e2 <= TOL, "line-line/point-off", "{:?}: reported intersection {:?} is {:.3e} / {:.3e} off the two lines", c, p, e1, e2);
                    let sine = (cr as f64).abs() / (((ux * ux + uy * uy) as f64).sqrt() * ((vx * vx + vy * vy) as f64).sqrt());
                    // a point within TOL of both lines is within 2*TOL/sine of their intersection - the statement asks no more
                    // than that of nearly parallel lines (an earlier fixed 1e-6 here was a false alarm at sine 1.5e-7, DESIGN 9.3)
                    let lim = 1e-6f64.max(2.0 * TOL / sine);
                    vensure!((p.x - ex).abs() <= lim && (p.y - ey).abs() <= lim, "line-line/point-off", "{:?}: reported {:?}, exact ({}, {})", c, p, ex, ey);
                    st.nontrivial = true;
                    if sine < 1e-5 {
                        st.label("nearly-parallel-lines-judged");
                    }
                } else {
                    st.label("far-intersection-not-judged");
                }
            }
        }
        Case::LatPos { c: cc, r, p } => {
            if *r < 1 {
                return Ok(st);
            }
            let (dx, dy) = ((p.0 - cc.0) as i64, (p.1 - cc.1) as i64);
            let d2 = dx * dx + dy * dy;
            let rr = (*r as i64).pow(2);
            let want = if d2 < rr {
                PointPosition::Inside
            } else if d2 == rr {
                PointPosition::Border
            } else {
                PointPosition::Outside
            };
            let got = Circle::new(pt(*cc), *r as f64).position(&pt(*p));
            vensure!(got == want, "position", "{:?}: position = {:?}, exact {:?}", c, got, want);
            if want == PointPosition::Border {
                st.nontrivial = true;
            }
        }
        Case::LatContains { p, q, x } => {
            if p == q {
                return Ok(st);
            }
            let (ux, uy) = ((q.0 - p.0) as i64, (q.1 - p.1) as i64);
            let (vx, vy) = ((x.0 - p.0) as i64, (x.1 - p.1) as i64);
            let on = ux * vy - uy * vx == 0;
            let got = Line::between(&pt(*p), &pt(*q)).contains(&pt(*x));
            vensure!(got == on, "contains", "{:?}: contains = {}, exact {}", c, got, on);
            let (a, b) = ((p.1 - q.1) as f64, (q.0 - p.0) as f64);
            let c0 = -(a * p.0 as f64 + b * p.1 as f64);
            let l2 = Line::new(-7.0 * a, -7.0 * b, -7.0 * c0);
            vensure!(l2.contains(&pt(*x)) == on, "contains", "{:?}: Line::new(-7a,-7b,-7c).contains = {}, exact {}", c, l2.contains(&pt(*x)), on);
            let dist_exact = (ux * vy - uy * vx).abs() as f64 / ((ux * ux + uy * uy) as f64).sqrt();
            vensure!((l2.dist(&pt(*x)) - dist_exact).abs() <= 1e-9 * (1.0 + dist_exact), "line-dist", "{:?}: dist = {}, exact {}", c, l2.dist(&pt(*x)), dist_exact);
            if on {
                st.nontrivial = true;
            }
        }
        Case::RealCC { x, y, r1, r2, theta, zone, f } => {
            let (cx, cy) = (*x as f64 / 1000.0, *y as f64 / 1000.0);
            let (ra, rb) = ((*r1).max(1) as f64 / 1000.0, (*r2).max(1) as f64 / 1000.0);
            let fr = *f as f64 / 65536.0;
            let (s, df) = (ra + rb, (ra - rb).abs());
            // keep >= 1e-3 absolute and a well-conditioned chord: distances stay 2% of the sum away from kind boundaries
            let m = (0.02 * s).max(2e-3);
            let (d, want) = match zone % 3 {
                0 => (s + m + fr * s, KCC::NoneOutside),
                1 => {
                    if s - df <= 3.0 * m {
                        return Ok(st);
                    }
                    (df + m + fr * (s - df - 2.0 * m), KCC::Intersect)
                }
                _ => {
                    if df <= 2.0 * m {
                        return Ok(st);
                    }
                    (fr * (df - m), KCC::NoneInside)
                }
            };
            if want == KCC::NoneInside && d < 1e-6 {
                return Ok(st);
            }
            let u = dir(*theta);
            let (bx, by) = (cx + d * u.0, cy + d * u.1);
            if bx.abs() > 2e3 || by.abs() > 2e3 {
                return Ok(st);
            }
            check_cc(&desc, (cx, cy, ra), (bx, by, rb), want, None)?;
            st.label("real-valued");
            if want == KCC::Intersect {
                st.nontrivial = true;
            }
        }
        Case::RealCL { x, y, r, theta, zone, f, span } => {
            let (cx, cy) = (*x as f64 / 1000.0, *y as f64 / 1000.0);
            let r = (*r).max(1) as f64 / 1000.0;
            let fr = *f as f64 / 65536.0;
            let m = (0.02 * r).max(2e-3).min(0.25 * r);
            let (dist, want) = if zone % 2 == 0 { (r + m + fr * r, KCL::None) } else { (fr * (r - m), KCL::Intersect) };
            let u = dir(*theta);
            let foot = (cx + dist * u.0, cy + dist * u.1);
            let sp = 1.0 + *span as f64 / 100.0;
            let (p, q) = ((foot.0 - sp * u.1, foot.1 + sp * u.0), (foot.0 + sp * u.1, foot.1 - sp * u.0));
            check_cl(&desc, (cx, cy, r), p, q, want, None)?;
            st.label("real-valued");
            if want == KCL::Intersect {
                st.nontrivial = true;
            }
        }
        Case::TanCL { x, y, r, theta, span } => {
            let (cx, cy) = (*x as f64 / 1000.0, *y as f64 / 1000.0);
            let r = (*r).max(1) as f64 / 1000.0;
            let u = dir(*theta);
            let t = (cx + r * u.0, cy + r * u.1);
            let sp = 1.0 + *span as f64 / 100.0;
            let (p, q) = ((t.0 - sp * u.1, t.1 + sp * u.0), (t.0 + sp * u.1, t.1 - sp * u.0));
            check_cl(&desc, (cx, cy, r), p, q, KCL::Touch, Some(t))?;
            st.nontrivial = true;
            st.label("constructed-tangent-line");
        }
        Case::TanCC { x, y, r1, r2, theta, inside } => {
            let (cx, cy) = (*x as f64 / 1000.0, *y as f64 / 1000.0);
            let (ra, rb) = ((*r1).max(1) as f64 / 1000.0, (*r2).max(1) as f64 / 1000.0);
            let u = dir(*theta);
            if *inside {
                if (ra - rb).abs() < 1e-2 {
                    return Ok(st);
                }
                // smaller circle inside the larger, touching at big.c + R*u
                let (big, small) = if ra > rb { (ra, rb) } else { (rb, ra) };
                let d = big - small;
                let t = (cx + big * u.0, cy + big * u.1);
                check_cc(&desc, (cx, cy, big), (cx + d * u.0, cy + d * u.1, small), KCC::TouchInside, Some(t))?;
            } else {
                let d = ra + rb;
                let t = (cx + ra * u.0, cy + ra * u.1);
                check_cc(&desc, (cx, cy, ra), (cx + d * u.0, cy + d * u.1, rb), KCC::TouchOutside, Some(t))?;
            }
            st.nontrivial = true;
            st.label("constructed-tangent-circles");
        }
        Case::NearCC { .. } | Case::NearCL { .. } => {}
        Case::RealLL { x, y, theta, f, neg, a1, b1, a2, b2 } => {
            let (px, py) = (*x as f64 / 2000.0, *y as f64 / 2000.0);
            let t1 = *theta as f64 / 65536.0 * std::f64::consts::TAU;
            let delta = 10f64.powf(-6.0 * *f as f64 / 65535.0) * if *neg { -1.0 } else { 1.0 };
            let t2 = t1 + delta;
            let (d1, d2) = ((t1.cos(), t1.sin()), (t2.cos(), t2.sin()));
            let span = |a: i32, b: i32| {
                let (a, b) = (a.clamp(-500_000, 500_000) as f64 / 1000.0, b.clamp(-500_000, 500_000) as f64 / 1000.0);
                if (a - b).abs() < 1.0 {
                    (a, a + 1.0)
                } else {
                    (a, b)
                }
            };
            let ((a1, b1), (a2, b2)) = (span(*a1, *b1), span(*a2, *b2));
            let (p1, q1) = ((px + a1 * d1.0, py + a1 * d1.1), (px + b1 * d1.0, py + b1 * d1.1));
            let (p2, q2) = ((px + a2 * d2.0, py + a2 * d2.1), (px + b2 * d2.0, py + b2 * d2.1));
            let (l1, l2) = (Line::between(&Point::new(p1.0, p1.1), &Point::new(q1.0, q1.1)), Line::between(&Point::new(p2.0, p2.1), &Point::new(q2.0, q2.1)));
            for (la, lb, order) in [(&l1, &l2, "(l1, l2)"), (&l2, &l1, "(l2, l1)")] {
                let p = match intersect_ll(la, lb) {
                    Some(p) => p,
                    None => return Err(Violation::new("line-line/missed", format!("{}: lines at an angle of {:.3e} rad reported parallel {}", desc, delta, order))),
                };
                let (e1, e2) = (off_line(&p, p1.0, p1.1, q1.0, q1.1), off_line(&p, p2.0, p2.1, q2.0, q2.1));
                vensure!(e1 <= TOL && e2 <= TOL, "line-line/point-off", "{}: intersect_ll{} = {:?} is {:.3e} / {:.3e} off the two lines (angle {:.3e} rad, true intersection near ({}, {}))", desc, order, p, e1, e2, delta, px, py);
            }
            st.nontrivial = true;
            st.label(if delta.abs() < 1e-4 { "real-lines-angle-below-1e-4" } else { "real-lines" });
        }
        Case::RawCC { .. } | Case::RawCL { .. } | Case::RawLL { .. } => return raw(c),
        Case::CrossTiny { x, y, rb, rs, theta, f } => {
            let (cx, cy) = (*x as f64 / 1000.0, *y as f64 / 1000.0);
            let big = (*rb).max(1000) as f64 / 1000.0;
            let small = (*rs).clamp(1000, 1_000_000) as f64 / 1e6;
            let m = 0.05 * small;
            let d = big - small + m + (*f as f64 / 65535.0) * (2.0 * small - 2.0 * m);
            let u = dir(*theta);
            let (bx, by) = (cx + d * u.0, cy + d * u.1);
            if bx.abs() > 1e3 || by.abs() > 1e3 || cx.abs() > 1e3 || cy.abs() > 1e3 {
                return Ok(st);
            }
            check_cc(&desc, (cx, cy, big), (bx, by, small), KCC::Intersect, None)?;
            st.nontrivial = true;
            st.label(if big / small >= 1e4 { "tiny-circle-crossing-a-huge-one-ratio>=1e4" } else { "small-circle-crossing-a-big-one" });
        }
        Case::Concentric { x, y, r, theta, dmode, ulps, f, omode, neg } => {
            let (cx, cy) = (*x as f64 / 1000.0, *y as f64 / 1000.0);
            let r = (*r).max(10) as f64 / 1000.0;
            let ulp = f64::from_bits(r.to_bits() + 1) - r;
            let delta = match dmode % 3 {
                0 => 0.0,
                1 => 1e-9 + *ulps as f64 * ulp,
                _ => 10f64.powf(-(3.0 + 9.0 * *f as f64 / 65535.0)),
            };
            let r2 = if *neg && r - delta >= 1e-2 { r - delta } else { r + delta };
            // (offsets whose squares are subnormal or underflow: a centre distance taken as sqrt(dx^2 + dy^2) is then wrong or zero)
            let off = [0.0, 1e-13, 1e-11, 1e-9, 1e-155, 2e-162, 1e-200, 1e-300][(*omode % 8) as usize];
            let u = dir(*theta);
            let (ca, cb) = (Circle::new(Point::new(cx, cy), r), Circle::new(Point::new(cx + off * u.0, cy + off * u.1), r2));
            let gap = (r2 - r).abs();
            for (first, second, order) in [(&ca, &cb, "a,b"), (&cb, &ca, "b,a")] {
                let res = intersect_cc(first, second);
                for p in res.into_iter() {
                    let (ea, eb) = (on_circle(&p, ca.c.x, ca.c.y, ca.r), on_circle(&p, cb.c.x, cb.c.y, cb.r));
                    vensure!(
                        ea <= TOL && eb <= TOL,
                        "circle-circle/point-off",
                        "{} intersect_cc({}) = {} reports the point {:?}, which is {:.3e} / {:.3e} off the two (nearly) concentric circles (radii differ by {:.3e}, centres {:.1e} apart)",
                        desc, order, kind_cc(&res), p, ea, eb, gap, off
                    );
                }
                if off == 0.0 && gap == 0.0 {
                    vensure!(matches!(res, CircleIntersection::Same), "circle-circle/kind", "{} identical circles reported {}", desc, kind_cc(&res));
                }
                if gap >= off + 2e-8 {
                    vensure!(matches!(res, CircleIntersection::None), "circle-circle/kind", "{} one circle strictly inside the other (margin {:.3e}) reported {}", desc, gap - off, kind_cc(&res));
                }
            }
            st.nontrivial = gap < 2e-8;
            st.label(if gap < 2e-8 { "concentric-inside-tolerance-band" } else { "concentric" });
        }
        Case::RealPos { x, y, r, theta, zone, f } => {
            let (cx, cy) = (*x as f64 / 1000.0, *y as f64 / 1000.0);
            let r = (*r).max(10) as f64 / 1000.0;
            let m = 1e-3 + *f as f64 / 65536.0;
            let (rho, want) = match zone % 3 {
                0 => (r * (1.0 - m.min(1.0)), PointPosition::Inside),
                1 => (r, PointPosition::Border),
                _ => (r * (1.0 + m), PointPosition::Outside),
            };
            let u = dir(*theta);
            let got = Circle::new(Point::new(cx, cy), r).position(&Point::new(cx + rho * u.0, cy + rho * u.1));
            vensure!(got == want, "position", "{}: the point at distance {} from the centre of a circle of radius {} is classified {:?}, expected {:?}", desc, rho, r, got, want);
            st.nontrivial = want == PointPosition::Border;
            st.label("real-position");
        }
        Case::RealContains { x, y, theta, a, b, t, off } => {
            let (px, py) = (*x as f64 / 2000.0, *y as f64 / 2000.0);
            let d = dir(*theta);
            let (a, b) = ((*a).clamp(-500_000, 500_000) as f64 / 1000.0, (*b).clamp(-500_000, 500_000) as f64 / 1000.0);
            let b = if (a - b).abs() < 1.0 { a + 1.0 } else { b };
            let t = (*t).clamp(-500_000, 500_000) as f64 / 1000.0;
            let off = if *off == 0 { 0.0 } else { off.signum() as f64 * (1e-3 + off.unsigned_abs() as f64 / 1000.0) };
            let l = Line::between(&Point::new(px + a * d.0, py + a * d.1), &Point::new(px + b * d.0, py + b * d.1));
            let q = Point::new(px + t * d.0 - off * d.1, py + t * d.1 + off * d.0);
            let got = l.contains(&q);
            vensure!(got == (off == 0.0), "contains", "{}: a point {} off the line is reported contains = {}", desc, off, got);
            vensure!((l.dist(&q) - off.abs()).abs() <= 1e-8, "line-dist", "{}: dist = {}, constructed {}", desc, l.dist(&q), off.abs());
            st.nontrivial = off == 0.0;
            st.label("real-contains");
        }
    }
    Ok(st)
}

const GRID: f64 = 1.0 / (1u64 << 37) as f64;
/// margin (20 x the library tolerance) inside which the kind of contact is not judged
const BAND: f64 = 2e-8;

fn coord(k: i64) -> f64 {
    (k.clamp(-(1 << 47), 1 << 47)) as f64 * GRID
}

fn radius(k: i64) -> f64 {
    ((k.unsigned_abs().min(1 << 47)) as f64 * GRID).clamp(1e-3, 1e3)
}

/// all reported points are finite and within TOL of both circles
fn points_only_cc(desc: &str, a: (f64, f64, f64), b: (f64, f64, f64)) -> Result<(), Violation> {
    let (ca, cb) = (Circle::new(Point::new(a.0, a.1), a.2), Circle::new(Point::new(b.0, b.1), b.2));
    for (first, second, order) in [(&ca, &cb, "a,b"), (&cb, &ca, "b,a")] {
        let res = intersect_cc(first, second);
        for p in res.into_iter() {
            let (ea, eb) = (on_circle(&p, a.0, a.1, a.2), on_circle(&p, b.0, b.1, b.2));
            vensure!(ea <= TOL && eb <= TOL, "circle-circle/point-off", "{} intersect_cc({}) = {} reports the point {:?}, which is {:.3e} / {:.3e} off the two circles", desc, order, kind_cc(&res), p, ea, eb);
        }
    }
    Ok(())
}

fn raw(c: &Case) -> CaseResult {
    let mut st = CaseStats::default();
    let desc = format!("{:?}", c);
    match c {
        Case::RawCC { ax, ay, ar, bx, by, br, rel, k } => {
            let (ax, ay, ar, br) = (coord(*ax), coord(*ay), radius(*ar), radius(*br));
            let (mut bx, mut by, mut br) = (coord(*bx), coord(*by), br);
            let delta = *k as f64 * GRID;
            let (ux, uy) = {
                let (dx, dy) = (bx - ax, by - ay);
                let l = dx.hypot(dy);
                if l > 0.0 {
                    (dx / l, dy / l)
                } else {
                    (1.0, 0.0)
                }
            };
            match rel % 4 {
                1 => {
                    bx = ax;
                    by = ay;
                    br = (ar + delta).clamp(1e-3, 1e3);
                }
                2 => {
                    let d = ar + br + delta;
                    bx = ax + d * ux;
                    by = ay + d * uy;
                }
                3 => {
                    let d = ((ar - br).abs() + delta).max(0.0);
                    bx = ax + d * ux;
                    by = ay + d * uy;
                }
                _ => {}
            }
            if bx.abs() > 1e3 || by.abs() > 1e3 || ax.abs() > 1e3 || ay.abs() > 1e3 {
                return Ok(st);
            }
            let d = (bx - ax).hypot(by - ay);
            let (g_out, g_in) = (d - (ar + br), d - (ar - br).abs());
            let want = if d == 0.0 && ar == br {
                Some(KCC::Same)
            } else if g_out.abs() < BAND || g_in.abs() < BAND {
                None
            } else if g_out > 0.0 {
                Some(KCC::NoneOutside)
            } else if g_in > 0.0 {
                Some(KCC::Intersect)
            } else {
                Some(KCC::NoneInside)
            };
            match want {
                Some(w) => {
                    check_cc(&desc, (ax, ay, ar), (bx, by, br), w, None)?;
                    st.label("raw-circles-kind-judged");
                }
                None => {
                    points_only_cc(&desc, (ax, ay, ar), (bx, by, br))?;
                    st.label("raw-circles-inside-band-points-only");
                }
            }
            st.nontrivial = g_out.abs() < 1e-3 || g_in.abs() < 1e-3;
        }
        Case::RawCL { cx, cy, r, px, py, qx, qy, rel, k } => {
            let (cx, cy, r) = (coord(*cx), coord(*cy), radius(*r));
            let (mut p, mut q) = ((coord(*px), coord(*py)), (coord(*qx), coord(*qy)));
            let len = (q.0 - p.0).hypot(q.1 - p.1);
            if len < 1e-2 {
                return Ok(st);
            }
            let (tx, ty) = ((q.0 - p.0) / len, (q.1 - p.1) / len);
            if rel % 2 == 1 {
                // same direction, moved so that it passes at distance r + k*2^-37 from the centre
                let dist = (r + *k as f64 * GRID).max(0.0);
                let foot = (cx - ty * dist, cy + tx * dist);
                let half = len.min(50.0) / 2.0;
                p = (foot.0 - tx * half, foot.1 - ty * half);
                q = (foot.0 + tx * half, foot.1 + ty * half);
            }
            if [p.0, p.1, q.0, q.1, cx, cy].iter().any(|v| v.abs() > 1e3) {
                return Ok(st);
            }
            let dist = ((q.0 - p.0) * (cy - p.1) - (q.1 - p.1) * (cx - p.0)).abs() / (q.0 - p.0).hypot(q.1 - p.1);
            let g = dist - r;
            if g.abs() >= BAND {
                check_cl(&desc, (cx, cy, r), p, q, if g > 0.0 { KCL::None } else { KCL::Intersect }, None)?;
                st.label("raw-circle-line-kind-judged");
            } else {
                let circle = Circle::new(Point::new(cx, cy), r);
                for (u, v) in [(p, q), (q, p)] {
                    let res = intersect_cl(&circle, &Line::between(&Point::new(u.0, u.1), &Point::new(v.0, v.1)));
                    for pnt in res.into_iter() {
                        // inside the band the line may be up to BAND away from the circle: a reported point has to be that close to both
                        let (ec, el) = (on_circle(&pnt, cx, cy, r), off_line(&pnt, p.0, p.1, q.0, q.1));
                        vensure!(ec <= TOL && el <= TOL, "circle-line/point-off", "{} reports the point {:?}, which is {:.3e} off the circle and {:.3e} off the line", desc, pnt, ec, el);
                    }
                }
                st.label("raw-circle-line-inside-band-points-only");
            }
            st.nontrivial = g.abs() < 1e-3;
        }
        Case::RawLL { p1, q1, p2, q2, rel, k } => {
            let (p1, q1, p2) = ((coord(p1.0), coord(p1.1)), (coord(q1.0), coord(q1.1)), (coord(p2.0), coord(p2.1)));
            let mut q2 = (coord(q2.0), coord(q2.1));
            let (ux, uy) = (q1.0 - p1.0, q1.1 - p1.1);
            if rel % 2 == 1 {
                let a = *k as f64 * GRID;
                q2 = (p2.0 + ux * a.cos() - uy * a.sin(), p2.1 + ux * a.sin() + uy * a.cos());
            }
            let (vx, vy) = (q2.0 - p2.0, q2.1 - p2.1);
            let (lu, lv) = (ux.hypot(uy), vx.hypot(vy));
            if lu < 1e-2 || lv < 1e-2 || [q2.0, q2.1].iter().any(|v| v.abs() > 1e3) {
                return Ok(st);
            }
            let sine = (ux * vy - uy * vx).abs() / (lu * lv);
            let (l1, l2) = (Line::between(&Point::new(p1.0, p1.1), &Point::new(q1.0, q1.1)), Line::between(&Point::new(p2.0, p2.1), &Point::new(q2.0, q2.1)));
            for (la, lb, order) in [(&l1, &l2, "(l1, l2)"), (&l2, &l1, "(l2, l1)")] {
                let res = intersect_ll(la, lb);
                if sine >= BAND {
                    vensure!(res.is_some(), "line-line/missed", "{}: lines whose directions enclose a sine of {:.3e} reported parallel {}", desc, sine, order);
                }
                if let Some(p) = res {
                    vensure!(p.x.is_finite() && p.y.is_finite(), "line-line/point-off", "{}: intersect_ll{} = {:?}", desc, order, p);
                    if sine >= BAND && p.x.abs() <= 1e3 && p.y.abs() <= 1e3 {
                        let (e1, e2) = (off_line(&p, p1.0, p1.1, q1.0, q1.1), off_line(&p, p2.0, p2.1, q2.0, q2.1));
                        vensure!(e1 <= TOL && e2 <= TOL, "line-line/point-off", "{}: intersect_ll{} = {:?} is {:.3e} / {:.3e} off the two lines (sine {:.3e})", desc, order, p, e1, e2, sine);
                    }
                }
            }
            // well-conditioned pairs whose intersection is well inside the box must be reported inside the box
            if sine >= 1e-3 {
                let t = ((p2.0 - p1.0) * vy - (p2.1 - p1.1) * vx) / (ux * vy - uy * vx);
                let (ex, ey) = (p1.0 + t * ux, p1.1 + t * uy);
                if ex.abs() <= 500.0 && ey.abs() <= 500.0 {
                    let p = intersect_ll(&l1, &l2).unwrap();
                    vensure!((p.x - ex).abs() <= 1e-6 && (p.y - ey).abs() <= 1e-6, "line-line/point-off", "{}: reported {:?}, expected about ({}, {})", desc, p, ex, ey);
                }
            }
            st.nontrivial = sine < 1e-3;
            st.label(if sine < BAND { "raw-lines-inside-band" } else { "raw-lines-judged" });
        }
        _ => {}
    }
    Ok(st)
}

/// byte-level decoding for the coverage-guided target: class, placement mode, fine offset, then 48-bit numbers
pub fn decode(data: &[u8]) -> Option<Case> {
    if data.len() < 6 + 6 * 6 {
        return None;
    }
    let (class, rel) = (data[0], data[1]);
    let k = i32::from_le_bytes([data[2], data[3], data[4], data[5]]);
    // small offsets matter most: half of the encodings keep only the low 12 bits
    let k = if class & 0x80 != 0 { k % 4096 } else { k };
    let num = |i: usize| -> i64 {
        let b = match data.get(6 + 6 * i..6 + 6 * i + 6) {
            Some(b) => b,
            None => return 0,
        };
        let v = i64::from_le_bytes([b[0], b[1], b[2], b[3], b[4], b[5], 0, 0]);
        (v << 16) >> 16
    };
    Some(match class % 3 {
        0 => Case::RawCC { ax: num(0), ay: num(1), ar: num(2), bx: num(3), by: num(4), br: num(5), rel, k },
        1 => Case::RawCL { cx: num(0), cy: num(1), r: num(2), px: num(3), py: num(4), qx: num(5), qy: num(6), rel, k },
        _ => Case::RawLL { p1: (num(0), num(1)), q1: (num(2), num(3)), p2: (num(4), num(5)), q2: (num(6), num(7)), rel, k },
    })
}

/// unit directions with exactly representable components (times 1/5)
const DIRS: [(f64, f64); 12] = [(5.0, 0.0), (-5.0, 0.0), (0.0, 5.0), (0.0, -5.0), (3.0, 4.0), (-3.0, 4.0), (3.0, -4.0), (-3.0, -4.0), (4.0, 3.0), (-4.0, 3.0), (4.0, -3.0), (-4.0, -3.0)];

fn near(c: &Case) -> CaseResult {
    let mut st = CaseStats::default();
    let q = 1.0 / 1024.0;
    let e30 = 1.0 / (1u64 << 30) as f64;
    match c {
        Case::NearCC { x, y, m1, m2, dir, k, crossing, inner } => {
            let (cx, cy) = (*x as f64 * q, *y as f64 * q);
            let (ra, rb) = (5.0 * *m1 as f64 * q, 5.0 * *m2 as f64 * q);
            let delta = 5.0 * *k as f64 * e30;
            let (big, small) = if ra >= rb { (ra, rb) } else { (rb, ra) };
            if small < 0.09 || big > 1000.0 {
                return Ok(st);
            }
            if small * 2.0 < big {
                st.label("near-tangent-circles-of-very-different-size");
            }
            let (base, want) = if *inner {
                if big - small < 0.09 {
                    return Ok(st);
                }
                // inside tangency: closer than (R-r) => the small circle lies strictly inside => None; farther => two points
                (big - small, if *crossing { KCC::Intersect } else { KCC::NoneInside })
            } else {
                (big + small, if *crossing { KCC::Intersect } else { KCC::NoneOutside })
            };
            let d = match (*inner, *crossing) {
                (false, true) | (true, false) => base - delta,
                _ => base + delta,
            };
            let u = DIRS[*dir as usize % 12];
            let (bx, by) = (cx + d / 5.0 * u.0, cy + d / 5.0 * u.1);
            let ca = Circle::new(Point::new(cx, cy), big);
            let cb = Circle::new(Point::new(bx, by), small);
            for (p, q2, order) in [(&ca, &cb, "big,small"), (&cb, &ca, "small,big")] {
                let res = intersect_cc(p, q2);
                let ok = matches!((&res, want), (CircleIntersection::None, KCC::NoneInside | KCC::NoneOutside) | (CircleIntersection::Intersect(..), KCC::Intersect));
                vensure!(
                    ok,
                    "circle-circle/kind-near-tangency",
                    "{:?}: circles of radius {} and {} whose centres are {:.3e} {} the tangent distance: intersect_cc({}) reported {}, exact geometry says {:?} (gap is {:.0} times the library tolerance)",
                    c, big, small, delta, if d > base { "beyond" } else { "short of" }, order, kind_cc(&res), want, delta / 1e-9
                );
                let n = res.into_iter().count();
                vensure!(n == if want == KCC::Intersect { 2 } else { 0 }, "circle-circle/point-count", "{:?}: {} points for kind {:?}", c, n, want);
            }
            st.nontrivial = true;
            st.label("near-tangent-circles");
            if delta < 1e-6 {
                st.label("gap-below-1e-6");
            }
        }
        Case::NearCL { x, y, m, dir, k, crossing } => {
            let (cx, cy) = (*x as f64 * q, *y as f64 * q);
            let r = 5.0 * *m as f64 * q;
            if r < 1.0 || r > 1000.0 {
                return Ok(st);
            }
            let delta = 5.0 * *k as f64 * e30;
            let dist = if *crossing { r - delta } else { r + delta };
            let u = DIRS[*dir as usize % 12];
            let foot = (cx + dist / 5.0 * u.0, cy + dist / 5.0 * u.1);
            let (p, q2) = ((foot.0 - u.1, foot.1 + u.0), (foot.0 + 2.0 * u.1, foot.1 - 2.0 * u.0));
            let circle = Circle::new(Point::new(cx, cy), r);
            for (a, b) in [(p, q2), (q2, p)] {
                let line = Line::between(&Point::new(a.0, a.1), &Point::new(b.0, b.1));
                let res = intersect_cl(&circle, &line);
                let (name, n) = match &res {
                    CircleLineIntersection::None => ("None", 0),
                    CircleLineIntersection::Touch(_) => ("Touch", 1),
                    CircleLineIntersection::Intersect(..) => ("Intersect", 2),
                };
                let want = if *crossing { 2 } else { 0 };
                vensure!(
                    n == want,
                    "circle-line/kind-near-tangency",
                    "{:?}: line at distance r {} {:.3e} from the centre of a circle of radius {}: intersect_cl reported {}, exact geometry says {} points (gap is {:.0} times the library tolerance)",
                    c, if *crossing { "-" } else { "+" }, delta, r, name, want, delta / 1e-9
                );
            }
            st.nontrivial = true;
            st.label("near-tangent-line");
        }
        _ => {}
    }
    Ok(st)
}

fn near_cases() -> impl Strategy<Value = Case> {
    let coord = || prop_oneof![-1_000_000i32..=1_000_000, -2048i32..=2048, Just(0i32)];
    let m = || prop_oneof![205u32..=204_800, 205u32..=4_000, 100_000u32..=204_800];
    // gap 5k*2^-30: from 1.9e-8 (19 x the tolerance) to 7.6e-5, roughly log-uniform
    let k = || (2u32..=14, 0u32..1024).prop_map(|(e, f)| ((1u32 << e) + (f * (1u32 << e) / 1024)).max(4));
    prop_oneof![
        // comparable radii by construction: m2 = m1 * f/1024 with f in [0.5, 2)
        3 => (coord(), coord(), m(), 512u32..2048, 0u8..12, k(), any::<bool>(), any::<bool>()).prop_map(|(x, y, m1, f, dir, k, crossing, inner)| {
            let m2 = ((m1 as u64 * f as u64) >> 10).clamp(205, 204_800) as u32;
            Case::NearCC { x, y, m1, m2, dir, k, crossing, inner }
        }),
        // radii of very different size (ratios up to 10^4): the radical line then passes very close to the tangent point
        2 => (coord(), coord(), m(), 20u32..=2048, 0u8..12, k(), any::<bool>(), any::<bool>()).prop_map(|(x, y, m1, m2, dir, k, crossing, inner)| Case::NearCC { x, y, m1, m2, dir, k, crossing, inner }),
        2 => (coord(), coord(), m(), 0u8..12, k(), any::<bool>()).prop_map(|(x, y, m, dir, k, crossing)| Case::NearCL { x, y, m, dir, k, crossing }),
    ]
}

fn lat(r: i32) -> impl Strategy<Value = P2> {
    (-r..=r, -r..=r)
}

/// Pythagorean tangencies: a lattice point at integer distance from the centre
const TRIPLES: [(i32, i32, i32); 8] = [(3, 4, 5), (5, 12, 13), (8, 15, 17), (7, 24, 25), (6, 8, 10), (20, 21, 29), (9, 12, 15), (12, 16, 20)];

fn lattice_cases(r: i32) -> impl Strategy<Value = Case> {
    let tri = prop::sample::select(TRIPLES.to_vec());
    let sgn = || prop_oneof![Just(1i32), Just(-1i32)];
    prop_oneof![
        4 => (lat(r), 1..=r, lat(r), 1..=r).prop_map(|(c1, r1, c2, r2)| Case::LatCC { c1, r1, c2, r2 }),
        // tangent circles through a Pythagorean offset: |c1c2| = h = r1 + r2 or |r1 - r2|
        3 => (lat(r), tri.clone(), sgn(), sgn(), any::<bool>(), 1i32..40, any::<bool>()).prop_map(|(c1, (a, b, h), sa, sb, swap, r1, inside)| {
            let (a, b) = if swap { (b, a) } else { (a, b) };
            let c2 = (c1.0 + sa * a, c1.1 + sb * b);
            if inside { Case::LatCC { c1, r1: h + r1, c2, r2: r1 } } else { Case::LatCC { c1, r1: r1.min(h - 1).max(1), c2, r2: h - r1.min(h - 1).max(1) } }
        }),
        5 => (lat(r), 1..=r, lat(r), lat(r)).prop_map(|(c, r, p, q)| Case::LatCL { c, r, p, q }),
        // axis-parallel tangent lines
        2 => (lat(r), 1..=r, sgn(), any::<bool>(), -r..=r, 1..=r).prop_map(|(c, r, s, vertical, t, k)| {
            if vertical { Case::LatCL { c, r, p: (c.0 + s * r, t), q: (c.0 + s * r, t + k) } } else { Case::LatCL { c, r, p: (t, c.1 + s * r), q: (t + k, c.1 + s * r) } }
        }),
        // oblique tangent lines from a triple: touch point c + (a,b)·(r/h)… use r = h, touch point c+(a,b), direction (-b,a)
        3 => (lat(r), tri, sgn(), sgn(), any::<bool>(), 1i32..4, -3i32..=3).prop_map(|(c, (a, b, h), sa, sb, swap, k, off)| {
            let (a, b) = if swap { (sb * b, sa * a) } else { (sa * a, sb * b) };
            let t = (c.0 + a, c.1 + b);
            Case::LatCL { c, r: h, p: (t.0 - off * b, t.1 + off * a), q: (t.0 - (off + k) * b, t.1 + (off + k) * a) }
        }),
        2 => (lat(r), lat(r), lat(r), lat(r)).prop_map(|(p1, q1, p2, q2)| Case::LatLL { p1, q1, p2, q2 }),
        // parallel and coincident lines by construction: same direction (scaled), shifted or not
        1 => (lat(r), lat(6), -4i32..=4, lat(r), any::<bool>()).prop_map(|(p1, d, k, shift, same)| {
            let k = if k == 0 { 1 } else { k };
            let q1 = (p1.0 + d.0, p1.1 + d.1);
            let p2 = if same { (p1.0 + 2 * d.0, p1.1 + 2 * d.1) } else { (p1.0 + shift.0, p1.1 + shift.1) };
            Case::LatLL { p1, q1, p2, q2: (p2.0 + k * d.0, p2.1 + k * d.1) }
        }),
        // nearly parallel lines through lattice points with coordinates up to 1000 that meet in a lattice point:
        // direction d = (p, q) and its unimodular partner d' = (x + p, y + q) with p*y - q*x = 1, so cross(d, d') = 1
        // and the sine of the angle is 1/(|d||d'|), down to ~5e-7 - still hundreds of times the 1e-9 tolerance
        2 => (20i32..=1900, -1900i32..=1900, -700i32..=700, -700i32..=700, any::<bool>(), 0u8..3).prop_map(|(p0, q0, ox, oy, flip, scale)| {
            fn egcd(a: i64, b: i64) -> (i64, i64, i64) {
                if b == 0 { (a, 1, 0) } else { let (g, x, y) = egcd(b, a % b); (g, y, x - (a / b) * y) }
            }
            let (g, _, _) = egcd(p0 as i64, q0 as i64);
            let (pp, qq) = ((p0 as i64 / g.abs().max(1)) as i32, (q0 as i64 / g.abs().max(1)) as i32);
            // u*pp + v*qq = 1  =>  pp*y - qq*x = 1 with y = u, x = -v
            let (_, u, v) = egcd(pp as i64, qq as i64);
            let (x, y) = (-(v as i32), u as i32);
            let d = (pp, qq);
            // reduce the Bezout vector into (-p/2, p/2]: (x, y) -> (x - t p, y - t q) keeps p*y - q*x = 1
            let t = if pp != 0 { (2 * x + pp).div_euclid(2 * pp) } else { 0 };
            let (x, y) = (x - t * pp, y - t * qq);
            let pt0 = (-(pp / 2) + ox, -(qq / 2) + oy);
            let b = (pt0.0 + d.0, pt0.1 + d.1);
            let _ = scale;
            // (the offsets ox, oy move the pair away from the origin: the lines' constant terms then reach several hundred)
            // second line from the shared END point b back towards pt0 with direction d' = (x, y) - d  (cross(d, d') = 1)
            let c2 = (b.0 + x - d.0, b.1 + y - d.1);
            if flip { Case::LatLL { p1: pt0, q1: b, p2: b, q2: c2 } } else { Case::LatLL { p1: c2, q1: b, p2: b, q2: pt0 } }
        }),
        2 => (lat(r), 1..=r, lat(r)).prop_map(|(c, r, p)| Case::LatPos { c, r, p }),
        1 => (lat(r), prop::sample::select(TRIPLES.to_vec()), sgn(), sgn()).prop_map(|(c, (a, b, h), sa, sb)| Case::LatPos { c, r: h, p: (c.0 + sa * a, c.1 + sb * b) }),
        2 => (lat(r), lat(r), lat(r)).prop_map(|(p, q, x)| Case::LatContains { p, q, x }),
        1 => (lat(r), lat(4), -5i32..=5).prop_map(|(p, d, k)| Case::LatContains { p, q: (p.0 + d.0, p.1 + d.1), x: (p.0 + k * d.0, p.1 + k * d.1) }),
    ]
}

fn raw_cases() -> impl Strategy<Value = Case> {
    let num = || prop_oneof![3 => -(1i64 << 47)..=(1i64 << 47), 2 => -(1i64 << 40)..=(1i64 << 40), 1 => -(1i64 << 30)..=(1i64 << 30)];
    let k = || prop_oneof![3 => -4096i32..=4096, 2 => -300i32..=300, 1 => any::<i32>()];
    prop_oneof![
        3 => (num(), num(), num(), num(), num(), num(), any::<u8>(), k()).prop_map(|(ax, ay, ar, bx, by, br, rel, k)| Case::RawCC { ax, ay, ar, bx, by, br, rel, k }),
        2 => ((num(), num(), num(), num()), (num(), num(), num()), any::<u8>(), k()).prop_map(|((cx, cy, r, px), (py, qx, qy), rel, k)| Case::RawCL { cx, cy, r, px, py, qx, qy, rel, k }),
        2 => ((num(), num()), (num(), num()), (num(), num()), (num(), num()), any::<u8>(), k()).prop_map(|(p1, q1, p2, q2, rel, k)| Case::RawLL { p1, q1, p2, q2, rel, k }),
    ]
}

fn real_cases() -> impl Strategy<Value = Case> {
    let coord = || prop_oneof![-1_000_000i32..=1_000_000, -5_000i32..=5_000, Just(0i32)];
    let rad = || prop_oneof![4 => 10u32..=1_000_000, 3 => 10u32..=5_000, 2 => 500u32..=50_000, 2 => 1u32..=12, 1 => 990_000u32..=1_000_000];
    let sp = || prop_oneof![-500_000i32..=500_000, -3_000i32..=3_000];
    prop_oneof![
        3 => (coord(), coord(), rad(), rad(), any::<u16>(), 0u8..3, any::<u16>()).prop_map(|(x, y, r1, r2, theta, zone, f)| Case::RealCC { x, y, r1, r2, theta, zone, f }),
        3 => (coord(), coord(), rad(), any::<u16>(), 0u8..2, any::<u16>(), any::<u16>()).prop_map(|(x, y, r, theta, zone, f, span)| Case::RealCL { x, y, r, theta, zone, f, span }),
        2 => (coord(), coord(), rad(), any::<u16>(), any::<u16>()).prop_map(|(x, y, r, theta, span)| Case::TanCL { x, y, r, theta, span }),
        2 => (coord(), coord(), rad(), rad(), any::<u16>(), any::<bool>()).prop_map(|(x, y, r1, r2, theta, inside)| Case::TanCC { x, y, r1, r2, theta, inside }),
        3 => (coord(), coord(), any::<u16>(), any::<u16>(), any::<bool>(), (sp(), sp(), sp(), sp())).prop_map(|(x, y, theta, f, neg, (a1, b1, a2, b2))| Case::RealLL { x, y, theta, f, neg, a1, b1, a2, b2 }),
        1 => (coord(), coord(), rad(), any::<u16>(), 0u8..3, prop_oneof![Just(0u16), any::<u16>()]).prop_map(|(x, y, r, theta, zone, f)| Case::RealPos { x, y, r, theta, zone, f }),
        3 => (coord(), coord(), prop_oneof![1_000u32..=1_000_000, 500_000u32..=1_000_000], prop_oneof![1_000u32..=1_000_000, 1_000u32..=20_000], any::<u16>(), any::<u16>()).prop_map(|(x, y, rb, rs, theta, f)| Case::CrossTiny { x, y, rb, rs, theta, f }),
        2 => (coord(), coord(), rad(), any::<u16>(), 0u8..3, -4i8..=4, any::<u16>(), 0u8..8, any::<bool>()).prop_map(|(x, y, r, theta, dmode, ulps, f, omode, neg)| Case::Concentric { x, y, r, theta, dmode, ulps, f, omode, neg }),
        1 => (coord(), coord(), any::<u16>(), sp(), sp(), sp(), prop_oneof![Just(0i32), Just(1), Just(-1), -100_000i32..=100_000]).prop_map(|(x, y, theta, a, b, t, off)| Case::RealContains { x, y, theta, a, b, t, off }),
    ]
}

pub fn real_main() {
    let mut ctx = Ctx::init("C10");
    ctx.rule(
        "Cases: (i) integer-lattice configurations - all circle-circle pairs with centres in [-4,4]^2 and radii 1..=4 (quick; [-6,6], 1..=6 \
         thorough) exhaustively, then generated circles/lines/points on [-12,12] (quick) / [-40,40] (thorough) incl. Pythagorean tangencies \
         (tangent circles, axis-parallel and oblique tangent lines, border points) and nearly parallel lines through lattice points up to 1000 that meet in a lattice point (sine of the angle down to 1e-7); the kind (none / touch inside / touch outside / two \
         points / same; none / touch / two points; parallel or not; inside/border/outside; on line or not) is decided exactly in integer \
         arithmetic, and non-degenerate lattice gaps are >= 3.9e-7 >> the library's 1e-9; (ii) real-valued configurations in milli-units \
         (coordinates +-1e3, radii 1e-3..1e3) constructed at least 2% of the radius sum (>= 2e-3) away from every kind boundary, so the \
         expected kind is unambiguous and the chord well conditioned; (iii) constructed tangencies at arbitrary positions and angles; (iv) near-tangent configurations built from exactly representable binary fractions (centres k/1024, radii 5m/1024 in [1,1000], radii of comparable and of very different size, axis and 3-4-5 directions) whose gap to tangency is 5k*2^-30 in [1.9e-8, 7.6e-5] - 19 to 76000 times the library tolerance - on either side: only the kind and the number of points are judged there. \
         (v) a small circle (radius 1e-3..1) crossing a big one (1..1e3, ratios to 1e6) with 5% of the small radius to either tangency; (vi) concentric and nearly \
         concentric circles (radii 0, about 1e-9 +- a few ulps, 1e-12..1e-3 apart; centres 0, 1e-13, 1e-11, 1e-9, 1e-155, 2e-162, 1e-200, 1e-300 apart); (vii) real-valued lines through a common point \
         at an angle of 1e-6..1 rad, defining points 1..1000 apart; point position at r(1-m), r, r(1+m) with m >= 1e-3; point-on-line tests on and >= 1e-3 off the line; \
         (viii) raw configurations on the 2^-37 grid (two circles, circle and line, two lines), absolute or placed relative to a tangent / concentric position with an offset of k*2^-37: \
         the kind is judged when the configuration is >= 2e-8 (20 x the library tolerance) from every kind boundary, the reported points always (finite, within 1e-7 of both primitives) - the thorough tier also drives (viii) with libFuzzer. \
         Oracle: reported kind = exact kind; every reported point within 1e-7 of every circle and of every line (line coefficients \
         recomputed by the harness from the defining points); two-point results match the exact chord within 1e-6; one point for touch \
         kinds (within 1e-6 of the constructed tangency where known), none for none/same; both argument orders / line directions. \
         Non-trivial = tangent configurations, and two-point configurations whose circle is not centred at the origin. Distinct = \
         distinct (sub-check, case).",
    );
    ctx.assume("kinds are judged only >= 2e-8 from a kind boundary (constructed margins; the harness's own f64 margin computation is accurate to ~1e-12); inside that band only the reported points are judged (DESIGN §6.2, §9.7)");
    ctx.assume("Circle::position is judged under the library's relative tolerance, which the property's anchors name as the mechanism");
    ctx.replayer("geometry-case", |v| run_case(&serde_json::from_value::<Case>(v.clone()).expect("case")));
    ctx.begin();
    let e = ctx.n(4, 6) as i32;
    let circles: Vec<(P2, i32)> = (-e..=e).flat_map(|x| (-e..=e).flat_map(move |y| (1..=e).map(move |r| ((x, y), r)))).collect();
    let c2 = circles.clone();
    let pairs = circles.into_iter().enumerate().flat_map(move |(i, a)| c2.clone().into_iter().skip(i).map(move |b| Case::LatCC { c1: a.0, r1: a.1, c2: b.0, r2: b.1 }));
    ctx.exhaustive("lattice-circle-pairs", "geometry-case", &format!("all unordered pairs of circles with centre in [-{e},{e}]^2 and radius 1..={e}"), true, pairs, run_case);
    ctx.prop_split("lattice-generated", "geometry-case", ctx.n(250_000, 40_000_000), ctx.parts(), lattice_cases(ctx.n(12, 40) as i32).boxed(), run_case);
    ctx.prop("real-valued-and-tangencies", "geometry-case", ctx.n(25_000, 6_000_000), real_cases(), run_case);
    ctx.prop_split("raw-grid-configurations", "geometry-case", ctx.n(40_000, 8_000_000), ctx.parts(), raw_cases().boxed(), run_case);
    ctx.prop_split("near-tangencies-exactly-representable", "geometry-case", ctx.n(30_000, 8_000_000), ctx.parts(), near_cases().boxed(), run_case);
    ctx.finish();
}
