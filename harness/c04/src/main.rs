//! C04: FFT multiplication is exact inside the published precision envelope, independent of the object's history.

use proptest::prelude::*;
use rlib_fft::{Complex, FFT};
use rlib_num_traits::Float;
use serde::{Deserialize, Serialize};
use vcore::{vensure, CaseResult, CaseStats, Ctx, SplitMix, Violation};

#[derive(Clone, Debug, Hash, Serialize, Deserialize, PartialEq)]
struct Poly {
    len: u32,
    /// 0 all +amp, 1 all -amp, 2 alternating +-amp, 3 random in [-amp, amp], 4 sparse, 5 random non-negative
    shape: u8,
    seed: u32,
}

#[derive(Clone, Debug, Hash, Serialize, Deserialize, PartialEq)]
enum Call {
    Mul { a: Poly, b: Poly },
    /// both arguments are sub-slices of ONE allocation: a = p[sa .. sa+la'], b = p[sb .. sb+lb'] (same start, nested, overlapping or
    /// identical ranges, derived from `cut`); also through multiply_into when `into`
    MulAliased { a: Poly, cut: u32, into: bool },
    /// dst: 0 shorter than la+lb-1, 1 equal, 2 longer; prefilled with a pattern from `fill`
    MulInto { a: Poly, b: Poly, dst: u8, fill: i32 },
    /// fft(a,n), fft(b,n), pointwise product, fft_inv; pad: 0 => smallest power of two, 1 => twice that; auto: pass n = 0 to fft
    Spectrum { a: Poly, b: Poly, pad: u8, auto: bool },
    /// forward transforms on a *fresh* helper object, inverse on this object
    CrossInverse { a: Poly, b: Poly },
    /// fft_into twice into a zeroed buffer, then fft_inv: must give 2*a
    FftIntoTwice { a: Poly },
    /// fft_inv_into twice into a prefilled destination
    InvIntoTwice { a: Poly, b: Poly, dst: u8, fill: i32 },
    UpdateN { log: u8 },
    /// a forward transform that is NOT followed by an inverse on this object (a caller who only wants the spectrum, or who inverts
    /// on another object): fft(a, n << pad) when `into` is false, fft_into into a zeroed buffer otherwise. What the next calls compute
    /// must not depend on it (scratch buffers left in a state that only the inverse resets)
    ForwardOnly { a: Poly, pad: u8, into: bool },
    /// continue on a clone of the object (derive(Clone)); the original is dropped
    CloneSwap,
    /// continue on FFT::default()
    FreshDefault,
}

#[derive(Clone, Debug, Hash, Serialize, Deserialize, PartialEq)]
struct Case {
    /// 0 = FFT<f64>, 1 = FFT<f32>
    float: u8,
    /// amplitude cap as a fraction (0..=65535)/65535 of the envelope amplitude for each call
    amp: u16,
    calls: Vec<Call>,
}

fn coefs(p: &Poly, amp: i64) -> Vec<i32> {
    let mut r = SplitMix(p.seed as u64 * 0x1000193 + p.len as u64);
    let amp = amp.max(0);
    (0..p.len)
        .map(|i| {
            (match p.shape % 6 {
                0 => amp,
                1 => -amp,
                2 => {
                    if i % 2 == 0 {
                        amp
                    } else {
                        -amp
                    }
                }
                3 => r.below(2 * amp as u64 + 1) as i64 - amp,
                4 => {
                    if r.below(8) == 0 {
                        if r.below(2) == 0 {
                            amp
                        } else {
                            -amp
                        }
                    } else {
                        0
                    }
                }
                _ => r.below(amp as u64 + 1) as i64,
            }) as i32
        })
        .collect()
}

const P61: u128 = (1 << 61) - 1;

fn eval_mod<T: Copy + Into<i128>>(v: &[T], x: u128) -> u128 {
    let mut acc: u128 = 0;
    for &c in v.iter().rev() {
        let c: i128 = c.into();
        let cm = c.rem_euclid(P61 as i128) as u128;
        acc = (acc * x + cm) % P61;
    }
    acc
}

/// exact convolution: naive when small, otherwise checked by polynomial identity at 3 points mod 2^61-1
enum Conv {
    Exact(Vec<i64>),
    Identity { a: Vec<i32>, b: Vec<i32> },
}

fn conv(a: &[i32], b: &[i32]) -> Conv {
    if a.is_empty() || b.is_empty() {
        return Conv::Exact(vec![]);
    }
    if (a.len() as u64) * (b.len() as u64) <= 3_000_000 {
        let mut c = vec![0i64; a.len() + b.len() - 1];
        for (i, &x) in a.iter().enumerate() {
            if x == 0 {
                continue;
            }
            for (j, &y) in b.iter().enumerate() {
                c[i + j] += x as i64 * y as i64;
            }
        }
        Conv::Exact(c)
    } else {
        Conv::Identity { a: a.to_vec(), b: b.to_vec() }
    }
}

impl Conv {
    /// compare `got` (already reduced by `base`, the destination's previous content) with the convolution on [0, len)
    fn check(&self, what: &str, got: &[i64], seed: u64) -> Result<(), Violation> {
        match self {
            Conv::Exact(c) => {
                for (k, (g, w)) in got.iter().zip(c.iter()).enumerate() {
                    vensure!(g == w, "wrong-coefficient", "{}: coefficient {} is {}, exact convolution {} (error {})", what, k, g, w, g - w);
                }
                Ok(())
            }
            Conv::Identity { a, b } => {
                // only valid when got covers the whole product
                let mut r = SplitMix(seed);
                for _ in 0..3 {
                    let x = (r.next() as u128) % P61;
                    let lhs = eval_mod(a, x) * eval_mod(b, x) % P61;
                    let rhs = eval_mod(got, x);
                    vensure!(lhs == rhs, "wrong-coefficient", "{}: a(x)*b(x) != c(x) at a random point modulo 2^61-1 (lengths {} and {})", what, a.len(), b.len());
                }
                Ok(())
            }
        }
    }
    fn len(&self) -> usize {
        match self {
            Conv::Exact(c) => c.len(),
            Conv::Identity { a, b } => a.len() + b.len() - 1,
        }
    }
}

fn pow2_at_least(x: usize) -> usize {
    let mut n = 1;
    while n < x {
        n <<= 1;
    }
    n
}

fn prefill(len: usize, fill: i32) -> Vec<i64> {
    (0..len).map(|i| fill as i64 * 1_000_003 + (i as i64 * 7919) % 1013 - 500).collect()
}

fn run<F: Float>(c: &Case, budget: f64, maxlen: u32) -> CaseResult {
    let mut st = CaseStats::default();
    st.size = c.calls.len() as u64;
    let mut obj = FFT::<F>::new();
    let mut table = 4usize; // what the object's tables have grown to (model)
    for (step, call) in c.calls.iter().enumerate() {
        let polys: Vec<&Poly> = match call {
            Call::Mul { a, b } | Call::MulInto { a, b, .. } | Call::Spectrum { a, b, .. } | Call::CrossInverse { a, b } | Call::InvIntoTwice { a, b, .. } => vec![a, b],
            Call::FftIntoTwice { a } | Call::MulAliased { a, .. } | Call::ForwardOnly { a, .. } => vec![a],
            Call::UpdateN { .. } | Call::CloneSwap | Call::FreshDefault => vec![],
        };
        if polys.iter().any(|p| p.len > maxlen) {
            continue;
        }
        // envelope (sound version, DESIGN §6.1): amp^2 * max(la, lb) <= budget, amp <= 1e6
        let l = polys.iter().map(|p| p.len).max().unwrap_or(1).max(1) as f64;
        let env = ((budget / l).sqrt()).min(1e6).floor();
        let amp = ((env * (c.amp as f64 + 1.0) / 65536.0).floor() as i64).max(if env >= 1.0 { 1 } else { 0 });
        let va: Vec<i32> = polys.first().map(|p| coefs(p, amp)).unwrap_or_default();
        let vb: Vec<i32> = polys.get(1).map(|p| coefs(p, amp)).unwrap_or_default();
        let negative = va.iter().chain(vb.iter()).any(|&x| x < 0);
        let full = if va.is_empty() || vb.is_empty() { 0 } else { va.len() + vb.len() - 1 };
        let near_pow2 = full >= 2 && {
            let p = pow2_at_least(full);
            p - full <= 1 || full - p / 2 <= 1
        };
        let what = format!("step {} {:?} (amp {}, table {})", step, short(call), amp, table);
        match call {
            Call::Mul { .. } => {
                let got = obj.multiply(&va, &vb);
                let want = conv(&va, &vb);
                vensure!(got.len() == want.len(), "result-length", "{}: multiply returned {} coefficients, expected {}", what, got.len(), want.len());
                want.check(&what, &got, step as u64 + 1)?;
                let fresh = FFT::<F>::new().multiply(&va, &vb);
                vensure!(fresh == got, "history-dependence", "{}: a fresh object gives a different result than the reused one", what);
                if full > 0 {
                    let n = pow2_at_least(full).max(2);
                    if n < table && negative {
                        st.nontrivial = true;
                        st.label("transform-smaller-than-table");
                    }
                    table = table.max(n);
                }
            }
            Call::MulAliased { cut, into, .. } => {
                let n = va.len();
                if n == 0 {
                    continue;
                }
                // two ranges inside the one vector `va`
                let (c0, c1) = ((cut & 0xffff) as usize, (cut >> 16) as usize);
                let (ra, rb) = match cut % 5 {
                    0 => (0..n, 0..n),                                 // the same slice twice
                    1 => (0..1 + c0 % n, 0..n),                        // a prefix and the whole
                    2 => (0..n, 0..1 + c1 % n),                        // the whole and a prefix
                    3 => (c0 % n..n, 0..1 + c1 % n),                   // a suffix and a prefix (may overlap)
                    _ => (0..1 + c0 % n, 0..1 + c1 % n),               // two prefixes
                };
                let (sa, sb) = (&va[ra.clone()], &va[rb.clone()]);
                let want = conv(sa, sb);
                let got: Vec<i64> = if *into {
                    let mut d = vec![0i64; sa.len() + sb.len() - 1];
                    obj.multiply_into(sa, sb, &mut d);
                    d
                } else {
                    obj.multiply(sa, sb)
                };
                vensure!(got.len() == want.len(), "result-length", "{}: product of the sub-slices {:?} and {:?} of one vector has {} coefficients, expected {}", what, ra, rb, got.len(), want.len());
                want.check(&format!("{} sub-slices {:?} x {:?} of one vector", what, ra, rb), &got, step as u64 + 1)?;
                let full = sa.len() + sb.len() - 1;
                table = table.max(pow2_at_least(full).max(2));
                st.label("arguments-alias-one-allocation");
            }
            Call::MulInto { dst, fill, .. } => {
                let dl = match dst % 3 {
                    0 => full / 2,
                    1 => full,
                    _ => full + 3,
                };
                let before = prefill(dl, *fill);
                let mut d = before.clone();
                obj.multiply_into(&va, &vb, &mut d);
                let want = conv(&va, &vb);
                let ov = dl.min(want.len());
                let diff: Vec<i64> = (0..ov).map(|i| d[i] - before[i]).collect();
                match &want {
                    Conv::Exact(_) => want.check(&what, &diff, 0)?,
                    Conv::Identity { .. } => {
                        if ov == want.len() {
                            want.check(&what, &diff, step as u64 + 7)?;
                        }
                    }
                }
                for i in ov..dl {
                    vensure!(d[i] == before[i], "destination-tail-touched", "{}: destination element {} beyond the product changed from {} to {}", what, i, before[i], d[i]);
                }
                if full > 0 {
                    let n = pow2_at_least(full).max(2);
                    if n < table && negative {
                        st.nontrivial = true;
                        st.label("transform-smaller-than-table");
                    }
                    table = table.max(n);
                    st.label("accumulate-into");
                }
            }
            Call::Spectrum { pad, auto, .. } => {
                if full == 0 {
                    continue;
                }
                let n = pow2_at_least(full) << (pad % 2);
                let (fa, fb) = if *auto && n == pow2_at_least(va.len()) && n == pow2_at_least(vb.len()) {
                    (obj.fft(&va, 0), obj.fft(&vb, 0))
                } else {
                    (obj.fft(&va, n), obj.fft(&vb, n))
                };
                vensure!(fa.len() == n && fb.len() == n, "spectrum-length", "{}: fft returned {} / {} values for n = {}", what, fa.len(), fb.len(), n);
                let prod: Vec<Complex<F>> = fa.iter().zip(fb.iter()).map(|(&x, &y)| x * y).collect();
                let got = obj.fft_inv(&prod);
                vensure!(got.len() == n, "inverse-length", "{}: fft_inv returned {} values for a spectrum of {}", what, got.len(), n);
                let want = conv(&va, &vb);
                want.check(&what, &got[..full], step as u64 + 3)?;
                for (i, &g) in got.iter().enumerate().skip(full) {
                    vensure!(g == 0, "wrong-coefficient", "{}: padding coefficient {} is {}, expected 0", what, i, g);
                }
                let direct = FFT::<F>::new().multiply(&va, &vb);
                vensure!(direct[..] == got[..full], "spectrum-vs-multiply", "{}: forward/pointwise/inverse differs from the direct multiply", what);
                if n < table && negative {
                    st.nontrivial = true;
                    st.label("transform-smaller-than-table");
                }
                table = table.max(n);
                st.label("via-spectrum");
            }
            Call::CrossInverse { .. } => {
                if full == 0 {
                    continue;
                }
                let n = pow2_at_least(full);
                let mut helper = FFT::<F>::new();
                let (fa, fb) = (helper.fft(&va, n), helper.fft(&vb, n));
                let prod: Vec<Complex<F>> = fa.iter().zip(fb.iter()).map(|(&x, &y)| x * y).collect();
                let got = obj.fft_inv(&prod);
                let want = conv(&va, &vb);
                vensure!(got.len() == n, "inverse-length", "{}: fft_inv returned {} values for a spectrum of {}", what, got.len(), n);
                want.check(&format!("{} [inverse on an object whose tables cover {} points, spectrum of {}]", what, table, n), &got[..full], step as u64 + 5)?;
                if n > table {
                    st.label("inverse-larger-than-table");
                    st.nontrivial = true;
                }
                table = table.max(n);
            }
            Call::FftIntoTwice { .. } => {
                if va.is_empty() {
                    continue;
                }
                let n = pow2_at_least(va.len());
                let mut acc = vec![Complex::<F>::new(F::ZERO, F::ZERO); n];
                obj.fft_into(&va, n, &mut acc);
                obj.fft_into(&va, 0, &mut acc);
                let got = obj.fft_inv(&acc);
                for i in 0..n {
                    let w = if i < va.len() { 2 * va[i] as i64 } else { 0 };
                    vensure!(got[i] == w, "fft_into-accumulate", "{}: after two fft_into calls the inverse gives {} at {}, expected {}", what, got[i], i, w);
                }
                table = table.max(n);
                st.label("fft_into-accumulate");
            }
            Call::InvIntoTwice { dst, fill, .. } => {
                if full == 0 {
                    continue;
                }
                let n = pow2_at_least(full);
                let (fa, fb) = (obj.fft(&va, n), obj.fft(&vb, n));
                let prod: Vec<Complex<F>> = fa.iter().zip(fb.iter()).map(|(&x, &y)| x * y).collect();
                let dl = match dst % 3 {
                    0 => full / 2,
                    1 => n,
                    _ => n + 2,
                };
                let before = prefill(dl, *fill);
                let mut d = before.clone();
                obj.fft_inv_into(&prod, &mut d);
                obj.fft_inv_into(&prod, &mut d);
                if let Conv::Exact(cw) = conv(&va, &vb) {
                    for i in 0..dl {
                        let w = before[i] + if i < full { 2 * cw[i] } else { 0 };
                        vensure!(d[i] == w, "fft_inv_into-accumulate", "{}: destination {} is {}, expected previous {} + 2*{}", what, i, d[i], before[i], if i < full { cw[i] } else { 0 });
                    }
                }
                table = table.max(n);
                st.label("fft_inv_into-accumulate");
            }
            Call::CloneSwap => {
                let c = obj.clone();
                if step % 2 == 0 {
                    obj = c;
                } else {
                    let mut fresh = FFT::<F>::new();
                    fresh.clone_from(&c);
                    obj = fresh;
                }
                st.label("continue-on-clone");
            }
            Call::FreshDefault => {
                obj = FFT::<F>::default();
                table = 4;
            }
            Call::ForwardOnly { pad, into, .. } => {
                if va.is_empty() {
                    continue;
                }
                let n = pow2_at_least(va.len()) << (pad % 3);
                let spec = if *into {
                    let mut acc = vec![Complex::<F>::new(F::ZERO, F::ZERO); n];
                    obj.fft_into(&va, n, &mut acc);
                    acc
                } else {
                    obj.fft(&va, n)
                };
                vensure!(spec.len() == n, "spectrum-length", "{}: forward transform returned {} values for n = {}", what, spec.len(), n);
                // the spectrum itself is judged through a *fresh* object's inverse, so this object's scratch state stays as the
                // forward transform left it
                let back = FFT::<F>::new().fft_inv(&spec);
                for i in 0..n {
                    let w = if i < va.len() { va[i] as i64 } else { 0 };
                    vensure!(back[i] == w, "forward-only", "{}: the inverse (fresh object) of the forward transform gives {} at {}, expected {}", what, back[i], i, w);
                }
                table = table.max(n);
                st.label("forward-without-inverse");
                st.nontrivial = true;
            }
            Call::UpdateN { log } => {
                let n = 1usize << (*log as usize % 13);
                obj.update_n(n);
                table = table.max(n);
            }
        }
        if near_pow2 && negative {
            st.nontrivial = true;
            st.label("length-within-1-of-power-of-two");
        }
    }
    Ok(st)
}

fn short(c: &Call) -> String {
    let s = format!("{:?}", c);
    if s.len() > 160 {
        format!("{}…", &s[..160])
    } else {
        s
    }
}

fn run_case(c: &Case) -> CaseResult {
    if c.float % 2 == 0 {
        run::<f64>(c, 1e12, 1 << 20)
    } else {
        run::<f32>(c, 1e3, 1000)
    }
}

fn len_pair(max_log: u32) -> impl Strategy<Value = (u32, u32)> {
    prop_oneof![
        // la + lb - 1 in {2^k - 1, 2^k, 2^k + 1}
        4 => (1u32..=max_log, 0u32..3, any::<u16>()).prop_map(|(k, d, split)| {
            let total = ((1u32 << k) + d).saturating_sub(1).max(1) + 1; // la + lb
            let la = 1 + (split as u32 * (total - 1) >> 16).min(total - 2).max(0);
            (la.max(1), (total - la).max(1))
        }),
        3 => (0u32..=40, 0u32..=40),
        1 => prop_oneof![Just((0u32, 5u32)), Just((5u32, 0u32)), Just((1u32, 1u32)), Just((1u32, 2u32)), Just((2u32, 1u32)), Just((0u32, 0u32))],
        2 => (1u32..=max_log).prop_flat_map(|k| (1u32..=(1 << k), 1u32..=(1 << k).min(64))),
        1 => (1u32..=max_log).prop_map(|k| (1 << k, 1)),
    ]
}

fn poly(len: u32) -> impl Strategy<Value = Poly> {
    (0u8..6, any::<u32>()).prop_map(move |(shape, seed)| Poly { len, shape, seed })
}

fn call(max_log: u32) -> impl Strategy<Value = Call> {
    let pair = move || len_pair(max_log).prop_flat_map(|(la, lb)| (poly(la), poly(lb)));
    prop_oneof![
        30 => pair().prop_map(|(a, b)| Call::Mul { a, b }),
        15 => (pair(), 0u8..3, any::<i32>()).prop_map(|((a, b), dst, fill)| Call::MulInto { a, b, dst, fill: fill % 1000 }),
        6 => (pair(), any::<u32>(), any::<bool>()).prop_map(|((a, _), cut, into)| Call::MulAliased { a, cut, into }),
        20 => (pair(), 0u8..2, any::<bool>()).prop_map(|((a, b), pad, auto)| Call::Spectrum { a, b, pad, auto }),
        10 => pair().prop_map(|(a, b)| Call::CrossInverse { a, b }),
        6 => (1u32..=(1 << max_log.min(9))).prop_flat_map(poly).prop_map(|a| Call::FftIntoTwice { a }),
        8 => (pair(), 0u8..3, any::<i32>()).prop_map(|((a, b), dst, fill)| Call::InvIntoTwice { a, b, dst, fill: fill % 1000 }),
        6 => (0u8..13).prop_map(|log| Call::UpdateN { log }),
        10 => ((1u32..=(1 << max_log.min(9))).prop_flat_map(poly), 0u8..3, any::<bool>()).prop_map(|(a, pad, into)| Call::ForwardOnly { a, pad, into }),
        4 => Just(Call::CloneSwap),
        1 => Just(Call::FreshDefault),
    ]
}

fn case(float: u8, max_log: u32, max_calls: usize) -> impl Strategy<Value = Case> {
    (prop_oneof![Just(u16::MAX), any::<u16>(), 0u16..300], prop::collection::vec(call(max_log), 1..=max_calls)).prop_map(move |(amp, calls)| Case { float, amp, calls })
}

fn main() {
    let mut ctx = Ctx::init("C04");
    ctx.rule(
        "A case is a history of 1..=12 calls on one reused FFT<f64> (or FFT<f32>) object: multiply, multiply_into with a prefilled \
         destination shorter/equal/longer than la+lb-1, forward transform + pointwise product + inverse (n = smallest power of two or \
         twice it, or n = 0 auto), inverse on this object of a spectrum produced by a fresh helper object, fft_into twice then inverse, \
         fft_inv_into twice into a prefilled destination, update_n(2^k). Length pairs are biased so that la+lb-1 is within 1 of a power \
         of two, plus 0/1-length inputs and growing-then-shrinking sizes; coefficients are signed with shapes all +A, all -A, \
         alternating, random, sparse, non-negative, A chosen so that A^2 * max(la,lb) <= 1e12 for f64 (1e3 for f32), A <= 1e6. Oracle: \
         the exact integer convolution (naive; for la*lb > 3e6 the identity a(x)b(x) = c(x) at 3 points mod 2^61-1); the same call on a \
         fresh object gives identical integers; *_into adds exactly the convolution on the overlap and leaves the rest untouched; \
         empty input gives empty result / untouched destination. Non-trivial = a call whose transform is smaller than the object's \
         current tables or whose la+lb-1 is within 1 of a power of two, with a negative coefficient, or an inverse larger than the \
         tables. Distinct = distinct (profile, sub-check, case).",
    );
    ctx.assume("domain is max(|a|,|b|)^2 * max(la,lb) <= 1e12 (f64) / 1e3 (f32): the sound reading of the published table (DESIGN §6.1), not min(la,lb)");
    ctx.replayer("fft-history", |v| run_case(&serde_json::from_value::<Case>(v.clone()).expect("case")));
    ctx.begin();
    let release = !cfg!(debug_assertions);
    ctx.prop_split("histories-f64-small", "fft-history", ctx.n(6_000, 1_000_000), ctx.parts(), case(0, 7, 12).boxed(), run_case);
    ctx.prop_split("histories-f64", "fft-history", ctx.n(1_200, 20_000), ctx.parts(), case(0, ctx.n(11, 14) as u32, 8).boxed(), run_case);
    ctx.prop_split("histories-f32", "fft-history", ctx.n(5_000, 800_000), ctx.parts(), case(1, 9, 12).boxed(), run_case);
    ctx.prop_split("single-calls-f64", "fft-history", ctx.n(20_000, 3_000_000), ctx.parts(), case(0, 8, 1).boxed(), run_case);
    // first calls on a fresh object (FFT::new() and FFT::default()), all small length pairs, every call kind
    {
        let mut hs = Vec::new();
        for float in 0..2u8 {
            for fresh_default in [false, true] {
                for la in 0..=5u32 {
                    for lb in 0..=5u32 {
                        let (a, b) = (Poly { len: la, shape: 3, seed: la * 7 + lb }, Poly { len: lb, shape: 2, seed: lb + 11 });
                        let firsts = vec![
                            Call::Mul { a: a.clone(), b: b.clone() },
                            Call::MulInto { a: a.clone(), b: b.clone(), dst: 2, fill: 3 },
                            Call::Spectrum { a: a.clone(), b: b.clone(), pad: 0, auto: false },
                            Call::Spectrum { a: a.clone(), b: b.clone(), pad: 0, auto: true },
                            Call::InvIntoTwice { a: a.clone(), b: b.clone(), dst: 1, fill: -2 },
                            Call::CrossInverse { a: a.clone(), b: b.clone() },
                            Call::FftIntoTwice { a: a.clone() },
                        ];
                        for f in firsts {
                            let mut calls = Vec::new();
                            if fresh_default {
                                calls.push(Call::FreshDefault);
                            }
                            calls.push(f);
                            calls.push(Call::Mul { a: Poly { len: 3, shape: 3, seed: 1 }, b: Poly { len: 2, shape: 2, seed: 2 } });
                            hs.push(Case { float, amp: 40_000, calls });
                        }
                    }
                }
            }
        }
        ctx.exhaustive("first-calls-on-fresh-objects", "fft-history", "FFT::new() / FFT::default() x all length pairs 0..=5 x 7 call kinds as the first call, f64 and f32", true, hs, run_case);
    }
    // tables beyond 2^16 entries (then a small product on the same object): explicit histories, both profiles
    {
        let big = |len: u32, shape: u8, seed: u32| Poly { len, shape, seed };
        let mut hs = Vec::new();
        for (i, &(la, lb)) in [(70_000u32, 3u32), (65_536, 2), (65_537, 65_537), (131_072, 1), (100_000, 40_000)].iter().enumerate() {
            if !release && i >= 2 {
                break;
            }
            hs.push(Case {
                float: 0,
                amp: u16::MAX,
                calls: vec![
                    Call::Mul { a: big(la, 3, i as u32), b: big(lb, 2, 7) },
                    Call::Mul { a: big(5, 3, 1), b: big(3, 1, 2) },
                    Call::Spectrum { a: big(9, 3, 3), b: big(8, 2, 4), pad: 0, auto: false },
                    Call::MulInto { a: big(33, 3, 5), b: big(32, 0, 6), dst: 2, fill: 5 },
                ],
            });
        }
        ctx.exhaustive("tables-beyond-2^16", "fft-history", "transforms of size 2^17 / 2^18 followed by small products on the same object", false, hs, run_case);
    }
    if release {
        // the envelope corner itself at the largest sizes: non-negative coefficients (large mean) at max^2 * len = 10^12, transform size 2^20 / 2^21
        let big = |len: u32, shape: u8, seed: u32| Poly { len, shape, seed };
        let mut hs = Vec::new();
        for &(la, lb, sa, sb) in [(1u32 << 19, 1u32 << 19, 0u8, 0u8), ((1 << 19) + 1, 1 << 19, 5, 5), (1 << 20, 1 << 20, 0, 5), (1 << 20, 1 << 18, 5, 0)].iter().take(if ctx.thorough() { 4 } else { 3 }) {
            hs.push(Case { float: 0, amp: u16::MAX, calls: vec![Call::Mul { a: big(la, sa, 11), b: big(lb, sb, 12) }] });
        }
        ctx.exhaustive("envelope-corner-at-2^20", "fft-history", "non-negative coefficients at the envelope amplitude, lengths 2^19 .. 2^20 (transform size 2^20 / 2^21)", false, hs, run_case);
        // envelope corners at larger sizes (release only: the checked build is ~10x slower here)
        ctx.prop_cfg("large-f64", "fft-history", ctx.n(60, 600), 40, case(0, ctx.n(14, 17) as u32, 3), run_case);
    }
    ctx.finish();
}
