//! Light treap item (value + size) for the scaled C16 patterns and the concurrent C17 workloads.

use rlib_treap::{TreapItem, TreapItemSized, TreapNode};

#[derive(Clone, Debug)]
pub struct Lt {
    pub val: u32,
    pub sz: usize,
}

impl Lt {
    pub fn new(val: u32) -> Self {
        Self { val, sz: 1 }
    }
}

impl TreapItem for Lt {
    fn update(&mut self, left: Option<&Self>, right: Option<&Self>) {
        self.sz = left.map(|i| i.sz).unwrap_or(0) + right.map(|i| i.sz).unwrap_or(0) + 1;
    }
}

impl TreapItemSized for Lt {
    fn size(&self) -> usize {
        self.sz
    }
}

#[derive(Default, Debug, Clone)]
pub struct Shape {
    pub nodes: usize,
    pub height: usize,
    pub edges: usize,
    pub edges_le: usize,
    pub edges_ge: usize,
    pub size_errors: usize,
    pub distinct_priorities: usize,
}

/// Iterative read-only walk (no recursion: a degenerate tree must be *reported*, not overflow the stack).
pub fn shape<T: TreapItemSized>(root: &Option<Box<TreapNode<T>>>, in_order: Option<&mut Vec<*const T>>) -> Shape {
    let mut s = Shape::default();
    let mut prios: Vec<u32> = Vec::new();
    let mut out = in_order;
    // (node, depth, visited_left)
    let mut stack: Vec<(&TreapNode<T>, usize, bool)> = Vec::new();
    // post-order size verification needs subtree counts: second pass stack of counts
    let mut counts: Vec<usize> = Vec::new();
    let _ = &mut counts;
    if let Some(r) = root {
        stack.push((r, 1, false));
    }
    while let Some((n, d, seen)) = stack.pop() {
        if !seen {
            s.nodes += 1;
            s.height = s.height.max(d);
            prios.push(n.priority);
            let lsz = n.left.as_ref().map(|c| c.item.size()).unwrap_or(0);
            let rsz = n.right.as_ref().map(|c| c.item.size()).unwrap_or(0);
            if n.item.size() != lsz + rsz + 1 {
                s.size_errors += 1;
            }
            for c in [&n.left, &n.right].into_iter().flatten() {
                s.edges += 1;
                if n.priority <= c.priority {
                    s.edges_le += 1;
                }
                if n.priority >= c.priority {
                    s.edges_ge += 1;
                }
            }
            stack.push((n, d, true));
            if let Some(l) = &n.left {
                stack.push((l, d + 1, false));
            }
        } else {
            if let Some(o) = out.as_deref_mut() {
                o.push(&n.item as *const T);
            }
            if let Some(r) = &n.right {
                stack.push((r, d + 1, false));
            }
        }
    }
    prios.sort_unstable();
    prios.dedup();
    s.distinct_priorities = prios.len();
    s
}

pub fn heap_ok(s: &Shape) -> bool {
    s.edges_le == s.edges || s.edges_ge == s.edges
}
