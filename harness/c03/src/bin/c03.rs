use c03::*;
use proptest::strategy::Strategy;
use vcore::Ctx;

fn main() {
    let mut ctx = Ctx::init("C03");
    ctx.rule(
        "Cases are operation histories over a pool of up to 6 live treaps (each up to 64 elements; a separate class of short histories on sequences of up to 1500 (quick) / 6000 (thorough) elements built by bulk insertions) (new, from_item, insert_at with library or harness-chosen \
         priority, remove_at, split_at 0..=len, split_by with a prefix-monotone id predicate, merge, first, last, collect, range-modify \
         via split/root_mut/merge, range-aggregate) with a priority policy (uniform, tiny alphabet with ties, increasing, decreasing, \
         alternating extremes) and a harness item whose aggregate is the ordered (id,value) list of the subtree and whose lazy \
         modification is a non-commuting affine map. After every op a read-only walk over the public node fields compares the in-order \
         content (pending modifications applied on the fly), every node's size and stored aggregate, the root aggregate, size(), \
         is_empty() and heap order with a Vec model; first/last/collect/remove_at results are compared when called and at the end. \
         Non-trivial = a structural operation (insert/remove/split/merge/range op) ran on a treap that had a pending modification at \
         an inner node at that moment (observed directly in the walk). Distinct = distinct (sub-check, case).",
    );
    ctx.assume("the harness item follows the convention of the repository's own test item: a node's value and aggregate are current, its pending modification is owed to the children");
    ctx.replayer("treap-history", |v| {
        let c: Case = serde_json::from_value(v.clone()).expect("replay case");
        run_case(&c)
    });
    ctx.begin();
    let max_ops = ctx.n(80, 400) as usize;
    ctx.prop_split("histories", "treap-history", ctx.n(30_000, 1_000_000), ctx.parts(), case(max_ops).boxed(), run_case);
    ctx.prop_split("short-histories", "treap-history", ctx.n(30_000, 300_000), ctx.parts(), case(12).boxed(), run_case);
    ctx.prop_split("long-sequences", "treap-history", ctx.n(250, 4_000), ctx.parts(), case_large(ctx.n(1_500, 6_000) as u16, 24).boxed(), run_case);
    ctx.finish();
}
