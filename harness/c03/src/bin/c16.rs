//! C16: heap order on every edge (one direction for the whole tree) and height <= 5*log2(n+1)+20 under
//! adversarial operation orders, priorities drawn by the library.

use c03::light::*;
use proptest::prelude::*;
use rlib_treap::{verif_reseed_priorities, Treap};
use serde::{Deserialize, Serialize};
use vcore::{vensure, CaseResult, CaseStats, Ctx, SplitMix};

#[derive(Clone, Debug, Hash, Serialize, Deserialize, PartialEq)]
struct Pat {
    kind: u8,
    n: u32,
    seed: u32,
    chunk: u16,
}

const KINDS: [&str; 15] = [
    "sorted-append",
    "front-insertion",
    "middle-insertion",
    "alternating-ends",
    "split-and-swap-rotations",
    "remove-reinsert-churn",
    "concatenate-small-treaps",
    "random-mix",
    "ordered-insert-by-split_by",
    "chunks-built-on-worker-threads-then-merged",
    "nodes-built-on-worker-threads-interleaved",
    "every-k-th-created-node-of-one-thread",
    "nodes-created-while-the-thread-is-winding-down",
    "thread-that-has-created-2^28-nodes",
    "2^20-treaps-grown-in-lock-step",
];

/// strides at which a low-discrepancy / arithmetic-progression priority sequence lines up with itself: Fibonacci and Lucas numbers,
/// powers of two and their neighbours
const STRIDES: [usize; 40] = [
    34, 55, 89, 144, 233, 377, 610, 987, 1597, 47, 76, 123, 199, 322, 521, 843, 1364, 29, 18, 21, 32, 64, 128, 256, 512, 1024, 31, 33, 63, 65, 127, 129, 255, 257, 511, 513, 100, 1000, 360, 1001,
];

fn gcd(a: usize, b: usize) -> usize {
    if b == 0 {
        a
    } else {
        gcd(b, a % b)
    }
}

fn bound(n: usize) -> f64 {
    5.0 * ((n + 1) as f64).log2() + 20.0
}

fn checkpoint(t: &Treap<Lt>, expect: usize, pat: &Pat, when: &str, sorted_vals: bool) -> Result<Shape, vcore::Violation> {
    let mut order: Vec<*const Lt> = Vec::new();
    let sh = shape(&t.root, if sorted_vals { Some(&mut order) } else { None });
    vensure!(
        heap_ok(&sh),
        "heap-order",
        "{:?} {}: priorities not heap-ordered in one direction over the whole tree: {} edges, {} parent<=child, {} parent>=child",
        pat, when, sh.edges, sh.edges_le, sh.edges_ge
    );
    vensure!(
        (sh.height as f64) <= bound(sh.nodes),
        "height",
        "{:?} {}: height {} exceeds 5*log2(n+1)+20 = {:.1} at n = {} ({} distinct priorities)",
        pat, when, sh.height, bound(sh.nodes), sh.nodes, sh.distinct_priorities
    );
    vensure!(sh.nodes == expect, "node-count", "{:?} {}: {} nodes reachable, expected {}", pat, when, sh.nodes, expect);
    vensure!(t.size() == expect, "size", "{:?} {}: size() = {}, expected {}", pat, when, t.size(), expect);
    vensure!(sh.size_errors == 0, "size-field", "{:?} {}: {} nodes with a wrong size field", pat, when, sh.size_errors);
    if sorted_vals {
        // SAFETY: pointers come from the live tree borrowed for the duration of this function
        let vals: Vec<u32> = order.iter().map(|p| unsafe { (**p).val }).collect();
        vensure!(vals.windows(2).all(|w| w[0] <= w[1]), "order", "{:?} {}: in-order values are not sorted", pat, when);
    }
    Ok(sh)
}

/// C16 judges heap order and height only. A lost / duplicated node, a wrong size field, an unsorted order or a
/// library panic on the way is the sequence semantics' business (C03): the case ends without a verdict here.
fn run_pat(pat: &Pat) -> CaseResult {
    match vcore::catch(|| run_pat_inner(pat)) {
        Ok(Ok(st)) => Ok(st),
        Ok(Err(v)) if v.sig == "heap-order" || v.sig == "height" => Err(v),
        Ok(Err(_)) | Err(_) => {
            let mut st = CaseStats::default();
            st.label("ended-early-on-a-non-heap-mismatch");
            Ok(st)
        }
    }
}

fn run_pat_inner(pat: &Pat) -> CaseResult {
    verif_reseed_priorities(pat.seed as u64);
    let mut st = CaseStats::default();
    let n = pat.n as usize;
    st.size = n as u64;
    let mut rng = SplitMix(pat.seed as u64 ^ 0xC16);
    let mut t: Treap<Lt> = Treap::new();
    let kind = pat.kind % 15;
    st.label(KINDS[kind as usize]);
    // intermediate checkpoints at 10^k so that a degenerate tree is reported at a small size
    let mut next_cp = 100usize;
    let mut maxh = 0usize;
    let mut cp = |t: &Treap<Lt>, len: usize, sorted: bool, maxh: &mut usize| -> Result<(), vcore::Violation> {
        if len >= next_cp {
            let sh = checkpoint(t, len, pat, "checkpoint", sorted)?;
            *maxh = (*maxh).max(sh.height);
            next_cp *= 10;
        }
        Ok(())
    };
    let mut len = 0usize;
    match kind {
        0 => {
            for i in 0..n {
                t.insert_at(len, Lt::new(i as u32));
                len += 1;
                cp(&t, len, true, &mut maxh)?;
            }
        }
        1 => {
            for i in 0..n {
                t.insert_at(0, Lt::new((n - i) as u32));
                len += 1;
                cp(&t, len, true, &mut maxh)?;
            }
        }
        2 => {
            for i in 0..n {
                t.insert_at(len / 2, Lt::new(i as u32));
                len += 1;
                cp(&t, len, false, &mut maxh)?;
            }
        }
        3 => {
            for i in 0..n {
                if i % 2 == 0 {
                    t.insert_at(len, Lt::new(i as u32));
                } else {
                    t.insert_at(0, Lt::new(i as u32));
                }
                len += 1;
                cp(&t, len, false, &mut maxh)?;
            }
        }
        4 => {
            for i in 0..n {
                t.insert_at(len, Lt::new(i as u32));
                len += 1;
            }
            let rot = (n / 4).max(10);
            for _ in 0..rot {
                let p = rng.below(len as u64 + 1) as usize;
                let (l, r) = std::mem::replace(&mut t, Treap::new()).split_at(p);
                t = Treap::merge(r, l);
            }
        }
        5 => {
            for i in 0..n {
                t.insert_at(len, Lt::new(i as u32));
                len += 1;
            }
            for i in 0..n {
                let p = rng.below(len as u64) as usize;
                t.remove_at(p);
                // re-insert at an end (the adversarial direction) or at random
                let q = if i % 2 == 0 { len - 1 } else { rng.below(len as u64) as usize };
                t.insert_at(q, Lt::new(i as u32));
            }
        }
        6 => {
            let chunk = (pat.chunk as usize % 64).max(1);
            let mut i = 0;
            while i < n {
                let mut small: Treap<Lt> = Treap::new();
                let k = chunk.min(n - i);
                for j in 0..k {
                    small.insert_at(j, Lt::new((i + j) as u32));
                }
                t = Treap::merge(std::mem::replace(&mut t, Treap::new()), small);
                i += k;
                len += k;
                cp(&t, len, true, &mut maxh)?;
            }
        }
        7 => {
            while len < n {
                match rng.below(10) {
                    0 if len > 0 => {
                        t.remove_at(rng.below(len as u64) as usize);
                        len -= 1;
                    }
                    1 => {
                        let p = rng.below(len as u64 + 1) as usize;
                        let (l, r) = std::mem::replace(&mut t, Treap::new()).split_at(p);
                        t = Treap::merge(r, l);
                    }
                    _ => {
                        t.insert_at(rng.below(len as u64 + 1) as usize, Lt::new(len as u32));
                        len += 1;
                    }
                }
            }
        }
        9 => {
            // W worker threads each build a chunk (their priorities come from their own thread's source); the chunks
            // are sent back and concatenated here. W from 2 to n (one node per thread).
            let w = match pat.chunk % 5 {
                0 => 2,
                1 => 16,
                2 => 200,
                3 => n.min(3000),
                _ => (pat.chunk as usize % 64) + 2,
            }
            .min(n.max(1));
            let per = (n + w - 1) / w;
            let mut start = 0usize;
            while start < n {
                let k = per.min(n - start);
                let handles: Vec<_> = (0..8usize)
                    .filter_map(|j| {
                        let s0 = start + j * per;
                        if s0 >= n {
                            return None;
                        }
                        let kk = per.min(n - s0);
                        Some(std::thread::spawn(move || {
                            let mut c: Treap<Lt> = Treap::new();
                            for i in 0..kk {
                                c.insert_at(i, Lt::new((s0 + i) as u32));
                            }
                            c
                        }))
                    })
                    .collect();
                let _ = k;
                for h in handles {
                    let c = h.join().unwrap();
                    let add = c.size();
                    t = Treap::merge(std::mem::replace(&mut t, Treap::new()), c);
                    len += add;
                    start += add;
                }
                cp(&t, len, true, &mut maxh)?;
            }
        }
        10 => {
            // T worker threads (one after another, or eight at a time) each create M one-element treaps; the main thread
            // concatenates them in an order that depends on (worker, creation index) only: column by column, column by column
            // in alternating worker direction, or column by column visiting the workers with a stride. The j-th nodes of many
            // threads then sit side by side, so any relation between the priority streams of different threads shows.
            let m = [8usize, 16, 29, 32, 40, 64][(pat.chunk as usize) % 6].min(n.max(1));
            let workers = (n / m).max(1);
            let order = (pat.chunk as usize / 6) % 3;
            let stride = [1usize, 3, 7, 19, 101][(pat.chunk as usize / 18) % 5];
            let batch = if (pat.chunk as usize / 90) % 2 == 0 { 1 } else { 8 };
            let mut per_worker: Vec<Vec<Option<Treap<Lt>>>> = Vec::with_capacity(workers);
            let mut w0 = 0usize;
            while w0 < workers {
                let hs: Vec<_> = (w0..(w0 + batch).min(workers))
                    .map(|w| std::thread::spawn(move || (0..m).map(|j| Some(Treap::from_item(Lt::new((j * workers + w) as u32)))).collect::<Vec<_>>()))
                    .collect();
                for h in hs {
                    per_worker.push(h.join().unwrap());
                }
                w0 += batch;
            }
            for j in 0..m {
                for i in 0..workers {
                    let w = match order {
                        0 => i,
                        1 => {
                            if j % 2 == 0 {
                                i
                            } else {
                                workers - 1 - i
                            }
                        }
                        _ => {
                            // visit the workers with a stride coprime to their number
                            let mut q = stride;
                            while gcd(q, workers) != 1 {
                                q += 1;
                            }
                            (i * q) % workers
                        }
                    };
                    let piece = per_worker[w][j].take().unwrap();
                    t = Treap::merge(std::mem::replace(&mut t, Treap::new()), piece);
                    len += 1;
                }
                cp(&t, len, false, &mut maxh)?;
            }
        }
        11 => {
            // K treaps grown in lock step on this thread: treap i receives the created nodes i, i+K, i+2K, ... (appended). Treaps 0 and
            // K-1 are kept; the priorities of one treap are every K-th draw of the stream.
            let k = if pat.chunk % 3 == 0 { 2 + (pat.chunk as usize / 3) % 2000 } else { STRIDES[(pat.chunk as usize / 3) % STRIDES.len()] };
            let m = (n / k).clamp(600, 1500);
            let mut last: Treap<Lt> = Treap::new();
            for j in 0..m {
                for i in 0..k {
                    let node = Treap::from_item(Lt::new((j * k + i) as u32));
                    if i == 0 {
                        t = Treap::merge(std::mem::replace(&mut t, Treap::new()), node);
                        len += 1;
                    } else if i == k - 1 {
                        last = Treap::merge(std::mem::replace(&mut last, Treap::new()), node);
                    }
                }
            }
            checkpoint(&last, m, pat, "treap K-1 of K grown in lock step", true)?;
        }
        14 => {
            // 2^20 treaps grown in lock step on one thread (one append per treap and round): treap j receives the created nodes j,
            // j + 2^20, j + 2*2^20, ... Only a block of 64 of them, starting at `n mod 2^20`, is kept (all of them would need tens of
            // gigabytes); `chunk` = number of rounds. Run only when asked for explicitly (chunk >= 400).
            let rounds = pat.chunk as usize;
            if rounds < 400 {
                st.label("lock-step-2^20-skipped");
                return Ok(st);
            }
            let rounds = rounds.min(1500);
            const STRIDE: usize = 1 << 20;
            let start = n % STRIDE;
            let block = 64usize.min(STRIDE - start);
            let mut kept: Vec<Treap<Lt>> = (0..block).map(|_| Treap::new()).collect();
            for r in 0..rounds {
                for j in 0..STRIDE {
                    if j >= start && j < start + block {
                        let node = Treap::from_item(Lt::new(r as u32));
                        let cur = std::mem::replace(&mut kept[j - start], Treap::new());
                        kept[j - start] = Treap::merge(cur, node);
                    } else {
                        std::hint::black_box(rlib_treap::TreapNode::new(Lt::new(0)).priority);
                    }
                }
            }
            for (i, tr) in kept.iter().enumerate() {
                checkpoint(tr, rounds, pat, &format!("treap {} of 2^20 grown in lock step", start + i), true)?;
            }
            t = kept.pop().unwrap();
            len = rounds;
            st.label("2^20-treaps-grown-in-lock-step");
        }
        13 => {
            // a very long-lived thread: 2^28 + 2^22 node creations (nearly all dropped at once). Kept: every 2^21-th created node
            // (appended to one treap: creation indices congruent modulo a large power of two) and, in a second treap, 3000
            // consecutive nodes created after the 2^28-th. Only run when asked for explicitly (n >= 2^28).
            if n < (1 << 28) {
                st.label("long-lived-pattern-skipped-below-2^28");
                return Ok(st);
            }
            let total: usize = (1 << 28) + (1 << 22);
            let mut late: Treap<Lt> = Treap::new();
            let mut late_n = 0usize;
            for i in 0..total {
                if i % (1 << 21) == 5 {
                    let node = Treap::from_item(Lt::new((i >> 8) as u32));
                    t = Treap::merge(std::mem::replace(&mut t, Treap::new()), node);
                    len += 1;
                } else if i > (1 << 28) + 100 && late_n < 3000 {
                    let node = Treap::from_item(Lt::new((i >> 8) as u32));
                    late = Treap::merge(std::mem::replace(&mut late, Treap::new()), node);
                    late_n += 1;
                } else {
                    // created and dropped at once (no allocation): only its priority draw matters
                    std::hint::black_box(rlib_treap::TreapNode::new(Lt::new(0)).priority);
                }
            }
            checkpoint(&late, late_n, pat, "3000 nodes created after the thread's 2^28-th creation", true)?;
            st.label("thread-that-has-created-2^28-nodes");
        }
        12 => {
            // nodes created from the destructor of another thread-local (registered before the thread's first node), i.e. while the
            // thread is winding down; the treap is sent out through a channel and judged here
            use std::sync::mpsc::{channel, Sender};
            struct OnExit(std::cell::RefCell<Option<(Sender<Treap<Lt>>, usize)>>);
            impl Drop for OnExit {
                fn drop(&mut self) {
                    if let Some((tx, m)) = self.0.borrow_mut().take() {
                        let mut t: Treap<Lt> = Treap::new();
                        for i in 0..m {
                            t.insert_at(i, Lt::new(i as u32));
                        }
                        let _ = tx.send(t);
                    }
                }
            }
            thread_local! {
                static EARLY: OnExit = OnExit(std::cell::RefCell::new(None));
            }
            let m = n.clamp(50, 3000);
            let (tx, rx) = channel();
            let warm = pat.chunk % 2 == 0;
            std::thread::spawn(move || {
                EARLY.with(|e| *e.0.borrow_mut() = Some((tx, m)));
                if warm {
                    // the thread has used its priority source before it winds down
                    let _ = Treap::from_item(Lt::new(0));
                }
            })
            .join()
            .unwrap();
            match rx.recv() {
                Ok(got) => {
                    t = got;
                    len = m;
                }
                Err(_) => {
                    // the platform did not run the destructor (or it could not send): nothing to judge
                    st.label("thread-exit-destructor-did-not-deliver");
                }
            }
        }
        _ => {
            // ordered insertion through split_by, ascending keys (the order that degenerates a plain BST)
            for i in 0..n {
                let v = i as u32;
                let (l, r) = std::mem::replace(&mut t, Treap::new()).split_by(|it| it.val < v);
                t = Treap::merge(l, Treap::merge(Treap::from_item(Lt::new(v)), r));
                len += 1;
                cp(&t, len, true, &mut maxh)?;
            }
        }
    }
    let sh = checkpoint(&t, len, pat, "end", matches!(kind, 0 | 1 | 6 | 8 | 9 | 11 | 12 | 13 | 14))?;
    let _ = maxh.max(sh.height);
    if len >= 1000 {
        st.nontrivial = true;
    }
    if len >= 100_000 {
        st.label("n>=1e5");
    }
    if len >= 1_000_000 {
        st.label("n>=1e6");
    }
    Ok(st)
}

fn real_main() {
    let mut ctx = Ctx::init("C16");
    ctx.rule(
        "A case is an adversarial construction pattern (sorted appends, repeated front insertion, middle insertion, alternating ends, \
         split-and-swap rotations, remove/re-insert churn, concatenation of small treaps, random mix, ascending ordered insertion via \
         split_by, chunks built on 2..n worker threads and merged, single nodes built on thousands of worker threads and merged column by column / in alternating direction / with a worker stride, every K-th created node of one thread for generated K and for Fibonacci / Lucas / power-of-two strides, a treap built while its thread winds down, a thread that has already created 2^28 nodes, 2^20 treaps grown in lock step of which a block of 64 is kept) with generated size, seed offset of the library's priority stream and chunk parameter, priorities drawn by the \
         library. Oracle at 10^k checkpoints and at the end, from an iterative read-only walk over the public node fields: priorities heap-ordered on every edge in one direction for the whole tree (ties allowed), height <= \
         5*log2(n+1)+20. The C03-style small histories with library priorities add heap checks after every operation. Non-trivial = a \
         pattern instance with n >= 1000 (sizes staged 10^2..10^5 quick, ..10^6 thorough). Distinct = distinct pattern parameters.",
    );
    ctx.assume("restarting the library's priority generator from another seed only moves to another offset of the same full-period LCG cycle");
    ctx.assume("a priority source with little but non-zero entropy (e.g. 16 bits) would pass at these sizes (DESIGN §7)");
    ctx.replayer("treap-pattern", |v| {
        let p: Pat = serde_json::from_value(v.clone()).expect("pattern");
        run_pat(&p)
    });
    ctx.replayer("treap-history", |v| {
        let c: c03::Case = serde_json::from_value(v.clone()).expect("case");
        c03::run_case_heap_only(&c)
    });
    ctx.begin();
    let stages: Vec<(u32, u64)> = if ctx.thorough() {
        vec![(100, 60), (1_000, 60), (10_000, 40), (100_000, 20), (1_000_000, 2)]
    } else {
        vec![(100, 30), (1_000, 30), (10_000, 12), (100_000, 2)]
    };
    // staged small to large: a degenerate structure is reported at a small stage, long before deep recursion
    for (n, reps) in stages {
        let name = format!("patterns-n{}", n);
        let lo = n - n / 4;
        let strat = (0u8..13, lo..=n, any::<u32>(), any::<u16>()).prop_map(|(kind, n, seed, chunk)| Pat { kind, n, seed, chunk });
        ctx.prop_cfg(&name, "treap-pattern", reps * 13, 64, strat, run_pat);
        if ctx.violations() > 0 {
            break;
        }
    }
    if ctx.violations() == 0 && !ctx.thorough() && !cfg!(debug_assertions) {
        // quick tier, release build only: two patterns at 10^6 (a priority source with a short period or few
        // distinct values only shows at this scale)
        let big = vec![Pat { kind: 0, n: 1_000_000, seed: 42, chunk: 0 }, Pat { kind: 1, n: 600_000, seed: 7, chunk: 0 }, Pat { kind: 8, n: 500_000, seed: 9, chunk: 0 }];
        ctx.exhaustive("patterns-n1e6-release", "treap-pattern", "sorted appends at 10^6, front insertion at 6*10^5, ordered split_by insertion at 5*10^5", false, big, run_pat);
    }
    if ctx.violations() == 0 {
        // nodes created on thousands of threads and laid side by side: fixed instances (the sampled stages above reach this
        // pattern at 10^5 only a few times) plus generated ones
        let fixed = vec![
            Pat { kind: 10, n: 4000 * 32, seed: 1, chunk: 3 },          // 4000 workers x 32, column by column
            Pat { kind: 10, n: 3000 * 40, seed: 2, chunk: 4 + 6 },      // 3000 x 40, alternating direction
            Pat { kind: 10, n: 2500 * 29, seed: 3, chunk: 2 + 12 + 18 }, // 2500 x 29, stride 3
            Pat { kind: 10, n: 6000 * 16, seed: 4, chunk: 1 + 90 },     // 6000 x 16, eight workers at a time
        ];
        let mut fixed = fixed;
        if ctx.thorough() {
            fixed.push(Pat { kind: 10, n: 31250 * 32, seed: 5, chunk: 3 }); // 10^6 nodes from 31250 workers, column by column
            fixed.push(Pat { kind: 10, n: 10000 * 32, seed: 6, chunk: 3 + 6 }); // 10000 x 32, alternating direction
            fixed.push(Pat { kind: 10, n: 1000 * 64, seed: 7, chunk: 5 + 12 + 54 }); // 1000 x 64, stride 19
        }
        ctx.exhaustive("thread-built-nodes-interleaved", "treap-pattern", "1500..6000 worker threads x 16..40 nodes each, merged column by column / alternating / strided", false, fixed, run_pat);
        let strat = (60_000u32..=160_000, any::<u32>(), any::<u16>()).prop_map(|(n, seed, chunk)| Pat { kind: 10, n, seed, chunk });
        ctx.prop_cfg("thread-built-nodes-interleaved-generated", "treap-pattern", ctx.n(6, 120), 16, strat, run_pat);
    }
    if ctx.violations() == 0 {
        // every K-th node of one thread's creation stream, for the strides where structured priority sequences line up with themselves
        let strided: Vec<Pat> = (0..STRIDES.len()).map(|i| Pat { kind: 11, n: 100_000, seed: 100 + i as u32, chunk: (3 * i + 1) as u16 }).collect();
        ctx.exhaustive("every-k-th-created-node", "treap-pattern", "K treaps grown in lock step on one thread for K in Fibonacci / Lucas numbers, powers of two and neighbours (40 strides), 600..1500 nodes each", false, strided, run_pat);
        if !cfg!(debug_assertions) || ctx.thorough() {
            // (the quick tier runs this one in the release build only: 2.7 * 10^8 creations)
            ctx.exhaustive("thread-that-has-created-2^28-nodes", "treap-pattern", "2^28 + 2^22 creations on one thread; kept: every 2^21-th created node, and 3000 consecutive nodes created after the 2^28-th", false, vec![Pat { kind: 13, n: 1 << 28, seed: 9, chunk: 0 }], run_pat);
        }
        if !cfg!(debug_assertions) || ctx.thorough() {
            let mut r = ctx.sub_rng("lock-step");
            let mut ls = vec![Pat { kind: 14, n: 89_600, seed: 42, chunk: 800 }];
            for _ in 0..ctx.n(1, 6) {
                ls.push(Pat { kind: 14, n: (r.next() % (1 << 20)) as u32, seed: r.next() as u32, chunk: 800 });
            }
            ctx.exhaustive("2^20-treaps-in-lock-step", "treap-pattern", "2^20 treaps grown in lock step on one thread, 800 rounds; a block of 64 neighbouring treaps kept (one fixed block, generated ones)", false, ls, run_pat);
        }
        let exits = vec![Pat { kind: 12, n: 2000, seed: 1, chunk: 0 }, Pat { kind: 12, n: 2000, seed: 2, chunk: 1 }, Pat { kind: 12, n: 300, seed: 3, chunk: 1 }];
        ctx.exhaustive("nodes-created-at-thread-exit", "treap-pattern", "a treap built from the destructor of another thread-local while the thread winds down (priority source used before / never used before)", false, exits, run_pat);
    }
    if ctx.violations() == 0 {
        // small histories with library priorities: heap order after every operation
        ctx.prop("small-histories-heap", "treap-history", ctx.n(8_000, 200_000), c03::case(60), c03::run_case_heap_only);
    }
    ctx.finish();
}

fn main() {
    // library recursion depth equals tree height: give the (sound) checker room, the height oracle fires first
    let h = std::thread::Builder::new().stack_size(1 << 30).spawn(real_main).unwrap();
    let _ = h.join();
}
