//! C03 (treap = sequence), C16 (heap order, height) and C17 (concurrent construction) share this crate.
//!
//! Harness item: value + immutable id + size + *free-monoid aggregate* (the ordered list of (id, value)
//! of the subtree) + pending affine modification owed to the children (assign / add / scale do not
//! commute). Same convention as the repository's own test item: a node's own value and aggregate are
//! current, `md` is owed to its children.

use proptest::prelude::*;
use rlib_treap::{Treap, TreapItem, TreapItemSized, TreapNode};
use serde::{Deserialize, Serialize};
use std::collections::HashSet;
use vcore::{pick, vensure, CaseResult, CaseStats, Violation};

pub mod light;

pub const P: u64 = 65521;

pub type Md = (u32, u32);

pub fn aff(m: &Md, x: u32) -> u32 {
    ((m.0 as u64 * x as u64 + m.1 as u64) % P) as u32
}

/// `first` then `then`
pub fn compose(first: &Md, then: &Md) -> Md {
    (
        ((then.0 as u64 * first.0 as u64) % P) as u32,
        ((then.0 as u64 * first.1 as u64 + then.1 as u64) % P) as u32,
    )
}

pub fn md_from_raw(raw: u32) -> Md {
    let a = match raw & 7 {
        0 | 1 => 0,
        2 | 3 => 1,
        4 => 2,
        5 => (P - 1) as u32,
        _ => (raw >> 3) % P as u32,
    };
    (a, (raw >> 8) % P as u32)
}

#[derive(Clone, Debug, Default)]
pub struct It {
    pub id: u32,
    pub val: u32,
    pub sz: usize,
    pub agg: Vec<(u32, u32)>,
    pub md: Option<Md>,
}

impl It {
    pub fn new(id: u32, val: u32) -> Self {
        Self { id, val, sz: 1, agg: vec![(id, val)], md: None }
    }
    pub fn apply(&mut self, m: &Md) {
        self.val = aff(m, self.val);
        for e in self.agg.iter_mut() {
            e.1 = aff(m, e.1);
        }
        self.md = Some(match &self.md {
            None => *m,
            Some(old) => compose(old, m),
        });
    }
}

impl TreapItem for It {
    fn update(&mut self, left: Option<&Self>, right: Option<&Self>) {
        self.sz = left.map(|i| i.sz).unwrap_or(0) + right.map(|i| i.sz).unwrap_or(0) + 1;
        let mut agg = Vec::with_capacity(self.sz);
        if let Some(l) = left {
            agg.extend_from_slice(&l.agg);
        }
        agg.push((self.id, self.val));
        if let Some(r) = right {
            agg.extend_from_slice(&r.agg);
        }
        self.agg = agg;
    }
    fn push(&mut self, left: Option<&mut Self>, right: Option<&mut Self>) {
        if let Some(m) = self.md.take() {
            if let Some(l) = left {
                l.apply(&m);
            }
            if let Some(r) = right {
                r.apply(&m);
            }
        }
    }
}

impl TreapItemSized for It {
    fn size(&self) -> usize {
        self.sz
    }
}

// ---------------------------------------------------------------------------------------------
// Read-only structural walk over the public node fields (never pushes, never mutates)
// ---------------------------------------------------------------------------------------------

#[derive(Default, Debug)]
pub struct Walk {
    /// in-order (id, effective value) — pending ancestor modifications applied on the fly
    pub seq: Vec<(u32, u32)>,
    pub nodes: usize,
    pub height: usize,
    /// edges with parent.priority <= child.priority / >= child.priority
    pub edges_le: usize,
    pub edges_ge: usize,
    pub edges: usize,
    pub size_errors: usize,
    /// nodes that have children and a pending modification
    pub pending_inner: usize,
    pub ties: usize,
    /// nodes whose stored aggregate (with the ancestors' pending modifications applied) is not the
    /// in-order content of their subtree
    pub agg_errors: usize,
}

pub fn walk(root: &Option<Box<TreapNode<It>>>) -> Walk {
    let mut w = Walk::default();
    // explicit stack: (node, pending md from ancestors, depth, state)
    fn rec(n: &TreapNode<It>, pend: Option<Md>, depth: usize, w: &mut Walk) -> usize {
        w.nodes += 1;
        w.height = w.height.max(depth);
        let down = match (&pend, &n.item.md) {
            (None, None) => None,
            (Some(p), None) => Some(*p),
            // the node's own md was attached before the ancestors' pending ones reach it? No: an ancestor's
            // pending md was attached to the ancestor *after* this node's md only if ... order of attachment:
            // a node's md predates anything still pending above it (pushing an ancestor applies to this node
            // and composes on top of its md). So for the children: first n.md, then pend.
            (None, Some(m)) => Some(*m),
            (Some(p), Some(m)) => Some(compose(m, p)),
        };
        if n.item.md.is_some() && (n.left.is_some() || n.right.is_some()) {
            w.pending_inner += 1;
        }
        let mut cnt = 1;
        let start = w.seq.len();
        for c in [&n.left, &n.right].into_iter().flatten() {
            w.edges += 1;
            if n.priority <= c.priority {
                w.edges_le += 1;
            }
            if n.priority >= c.priority {
                w.edges_ge += 1;
            }
            if n.priority == c.priority {
                w.ties += 1;
            }
        }
        if let Some(l) = &n.left {
            cnt += rec(l, down, depth + 1, w);
        }
        let v = match &pend {
            None => n.item.val,
            Some(p) => aff(p, n.item.val),
        };
        w.seq.push((n.item.id, v));
        if let Some(r) = &n.right {
            cnt += rec(r, down, depth + 1, w);
        }
        if cnt != n.item.sz {
            w.size_errors += 1;
        }
        let eff: Vec<(u32, u32)> = n.item.agg.iter().map(|e| (e.0, pend.as_ref().map(|p| aff(p, e.1)).unwrap_or(e.1))).collect();
        if eff[..] != w.seq[start..] {
            w.agg_errors += 1;
        }
        cnt
    }
    if let Some(r) = root {
        rec(r, None, 1, &mut w);
    }
    w
}

// ---------------------------------------------------------------------------------------------
// Case
// ---------------------------------------------------------------------------------------------

#[derive(Clone, Debug, Hash, Serialize, Deserialize, PartialEq)]
pub enum Op {
    NewEmpty,
    FromItem { v: u32, prio: u32 },
    InsertAt { t: u16, pos: u16, v: u32 },
    InsertPrio { t: u16, pos: u16, v: u32, prio: u32 },
    RemoveAt { t: u16, pos: u16 },
    SplitAt { t: u16, pos: u16 },
    SplitBy { t: u16, k: u16 },
    Merge { t: u16, u: u16 },
    First { t: u16 },
    Last { t: u16 },
    Collect { t: u16 },
    RangeModify { t: u16, l: u16, r: u16, m: u32 },
    RangeAggregate { t: u16, l: u16, r: u16 },
    /// `let e = t.remove_at(from); u.insert_at(to, e)`: the item handed out by remove_at goes back into a treap
    Move { t: u16, from: u16, u: u16, to: u16 },
    /// `count` insertions in one op (positions derived from `v`): builds large treaps in few ops
    Bulk { t: u16, count: u16, v: u32, mode: u8 },
}

#[derive(Clone, Debug, Hash, Serialize, Deserialize, PartialEq)]
pub struct Case {
    /// 0 uniform u32, 1 tiny alphabet {0,1,2} (ties), 2 increasing, 3 decreasing, 4 alternating extremes
    pub policy: u8,
    pub ops: Vec<Op>,
    /// cap on the length of one treap (0 = the default small scope, 64)
    #[serde(default)]
    pub max_len: u16,
}

pub const MAX_POOL: usize = 6;
pub const MAX_LEN: usize = 64;

struct Slot {
    t: Treap<It>,
    m: Vec<(u32, u32)>,
}

struct Interp {
    pool: Vec<Slot>,
    next_id: u32,
    counter: u32,
    policy: u8,
}

impl Interp {
    fn prio(&mut self, raw: u32) -> u32 {
        self.counter += 1;
        match self.policy % 5 {
            0 => raw,
            1 => raw % 3,
            2 => self.counter,
            3 => u32::MAX - self.counter,
            _ => {
                if self.counter % 2 == 0 {
                    raw % 4
                } else {
                    u32::MAX - raw % 4
                }
            }
        }
    }
    fn fresh(&mut self, v: u32) -> It {
        self.next_id += 1;
        It::new(self.next_id, v % P as u32)
    }
}

thread_local! {
    /// C16 reuses these histories but judges heap order only (anything else belongs to C03)
    static HEAP_ONLY: std::cell::Cell<bool> = std::cell::Cell::new(false);
}

fn check_slot(s: &Slot, step: usize, what: &str) -> Result<Walk, Violation> {
    let w = walk(&s.t.root);
    if HEAP_ONLY.with(|h| h.get()) {
        vensure!(
            w.edges_le == w.edges || w.edges_ge == w.edges,
            "heap-order",
            "step {} ({}): priorities are not heap-ordered in one direction: {} edges, {} with parent<=child, {} with parent>=child",
            step, what, w.edges, w.edges_le, w.edges_ge
        );
        return Ok(w);
    }
    vensure!(
        w.seq == s.m,
        "sequence",
        "step {} ({}): in-order content of the treap (pending modifications applied) = {:?}, model = {:?}",
        step, what, w.seq, s.m
    );
    vensure!(s.t.size() == s.m.len(), "size", "step {} ({}): size() = {}, model length {}", step, what, s.t.size(), s.m.len());
    vensure!(s.t.is_empty() == s.m.is_empty(), "is_empty", "step {} ({}): is_empty() = {}, model length {}", step, what, s.t.is_empty(), s.m.len());
    vensure!(w.size_errors == 0, "size-field", "step {} ({}): {} node(s) whose size field differs from the subtree node count", step, what, w.size_errors);
    vensure!(w.agg_errors == 0, "subtree-aggregate", "step {} ({}): {} node(s) whose stored aggregate is not the fold of exactly their subtree's elements", step, what, w.agg_errors);
    if let Some(r) = s.t.root() {
        vensure!(
            r.agg == s.m,
            "root-aggregate",
            "step {} ({}): aggregate at the root = {:?}, fold of the model = {:?}",
            step, what, r.agg, s.m
        );
    }
    // heap order is property C16's business (judged by run_case_heap_only); C03 holds for every tree shape
    Ok(w)
}

/// The same histories judged on heap order alone (C16): every other oracle is switched off, and a
/// functional mismatch of a returned value (C03's business) ends the case without a verdict.
pub fn run_case_heap_only(case: &Case) -> CaseResult {
    HEAP_ONLY.with(|h| h.set(true));
    // (a library panic on the way is C03's business too)
    let r = vcore::catch(|| run_case(case)).unwrap_or_else(|m| Err(Violation::new("panic", m)));
    HEAP_ONLY.with(|h| h.set(false));
    match r {
        Err(v) if v.sig != "heap-order" => {
            let mut st = CaseStats::default();
            st.label("ended-early-on-a-non-heap-mismatch");
            Ok(st)
        }
        other => other,
    }
}

pub fn run_case(case: &Case) -> CaseResult {
    // the library's priority source is thread state: restart it so that a case is a pure function of its value
    rlib_treap::verif_reseed_priorities(42);
    let mut st = CaseStats::default();
    st.size = case.ops.len() as u64;
    let mut ip = Interp { pool: vec![Slot { t: Treap::new(), m: vec![] }], next_id: 0, counter: 0, policy: case.policy };
    let max_len: usize = if case.max_len == 0 { MAX_LEN } else { case.max_len as usize };
    st.label(match case.policy % 5 {
        0 => "prio-uniform",
        1 => "prio-tiny-alphabet",
        2 => "prio-increasing",
        3 => "prio-decreasing",
        _ => "prio-alternating-extremes",
    });
    for (step, op) in case.ops.iter().enumerate() {
        let np = ip.pool.len();
        // does the touched treap carry a pending modification at an inner node right now?
        let pending_before = |ip: &Interp, t: usize| walk(&ip.pool[t].t.root).pending_inner > 0;
        let mut touched: Vec<usize> = Vec::new();
        match op {
            Op::NewEmpty => {
                if np < MAX_POOL {
                    ip.pool.push(Slot { t: if step % 2 == 0 { Treap::new() } else { Treap::default() }, m: vec![] });
                    touched.push(np);
                }
            }
            Op::FromItem { v, prio } => {
                if np < MAX_POOL {
                    let it = ip.fresh(*v);
                    let e = (it.id, it.val);
                    let mut t = Treap::from_item(it);
                    if case.policy % 5 != 0 || prio & 1 == 1 {
                        t.root.as_mut().unwrap().priority = ip.prio(*prio);
                    }
                    ip.pool.push(Slot { t, m: vec![e] });
                    touched.push(np);
                }
            }
            Op::InsertAt { t, pos, v } => {
                let t = pick(*t, np);
                if ip.pool[t].m.len() < max_len {
                    if pending_before(&ip, t) {
                        st.nontrivial = true;
                        st.label("structural-op-with-pending-lazy");
                    }
                    let pos = pick(*pos, ip.pool[t].m.len() + 1);
                    let mut it = ip.fresh(*v);
                    if v % 5 == 3 {
                        // a one-element subtree that already carries a modification (lawful: its own value is current, the
                        // modification is owed to children it does not have) - it must not reach anybody else
                        it.apply(&md_from_raw(v.rotate_left(13)));
                        st.label("insert-item-with-pending-modification");
                    }
                    ip.pool[t].m.insert(pos, (it.id, it.val));
                    ip.pool[t].t.insert_at(pos, it);
                    touched.push(t);
                }
            }
            Op::InsertPrio { t, pos, v, prio } => {
                let t = pick(*t, np);
                if ip.pool[t].m.len() < max_len {
                    if pending_before(&ip, t) {
                        st.nontrivial = true;
                        st.label("structural-op-with-pending-lazy");
                    }
                    let pos = pick(*pos, ip.pool[t].m.len() + 1);
                    let it = ip.fresh(*v);
                    ip.pool[t].m.insert(pos, (it.id, it.val));
                    let mut node = TreapNode::new(it);
                    node.priority = ip.prio(*prio);
                    // exactly what Treap::insert_at does, with a harness-chosen priority
                    let (l, r) = TreapNode::split_at(ip.pool[t].t.root.take(), pos);
                    ip.pool[t].t.root = TreapNode::merge(TreapNode::merge(l, Some(Box::new(node))), r);
                    touched.push(t);
                }
            }
            Op::RemoveAt { t, pos } => {
                let t = pick(*t, np);
                if !ip.pool[t].m.is_empty() {
                    if pending_before(&ip, t) {
                        st.nontrivial = true;
                        st.label("structural-op-with-pending-lazy");
                    }
                    let pos = pick(*pos, ip.pool[t].m.len());
                    let want = ip.pool[t].m.remove(pos);
                    let got = ip.pool[t].t.remove_at(pos);
                    vensure!(
                        (got.id, got.val) == want,
                        "remove_at/value",
                        "step {}: remove_at({}) returned (id {}, value {}), model removed {:?}",
                        step, pos, got.id, got.val, want
                    );
                    touched.push(t);
                }
            }
            Op::SplitAt { t, pos } => {
                let t = pick(*t, np);
                if pending_before(&ip, t) {
                    st.nontrivial = true;
                    st.label("structural-op-with-pending-lazy");
                }
                let len = ip.pool[t].m.len();
                let pos = pick(*pos, len + 1);
                if pos == 0 || pos == len {
                    st.label("split-at-end");
                }
                let whole = std::mem::replace(&mut ip.pool[t].t, Treap::new());
                let (l, r) = whole.split_at(pos);
                let rm = ip.pool[t].m.split_off(pos);
                vensure!(l.size() == pos, "split_at/left-size", "step {}: split_at({}) of a treap of {} gave a left part of size {}", step, pos, len, l.size());
                vensure!(r.size() == len - pos, "split_at/right-size", "step {}: split_at({}) of a treap of {} gave a right part of size {}", step, pos, len, r.size());
                if np < MAX_POOL {
                    ip.pool[t].t = l;
                    ip.pool.push(Slot { t: r, m: rm });
                    touched.push(np);
                } else {
                    // pool full: check both halves, then rotate (merge right ++ left)
                    let ls = Slot { t: l, m: std::mem::take(&mut ip.pool[t].m) };
                    let rs = Slot { t: r, m: rm };
                    check_slot(&ls, step, "split_at left part")?;
                    check_slot(&rs, step, "split_at right part")?;
                    let mut m = rs.m;
                    m.extend_from_slice(&ls.m);
                    ip.pool[t] = Slot { t: Treap::merge(rs.t, ls.t), m };
                    st.label("split-and-swap");
                }
                touched.push(t);
            }
            Op::SplitBy { t, k } => {
                let t = pick(*t, np);
                if pending_before(&ip, t) {
                    st.nontrivial = true;
                    st.label("structural-op-with-pending-lazy");
                }
                let len = ip.pool[t].m.len();
                let k = pick(*k, len + 1);
                let prefix: HashSet<u32> = ip.pool[t].m[..k].iter().map(|e| e.0).collect();
                let whole = std::mem::replace(&mut ip.pool[t].t, Treap::new());
                let (l, r) = whole.split_by(|it| prefix.contains(&it.id));
                let rm = ip.pool[t].m.split_off(k);
                st.label("split_by");
                if np < MAX_POOL {
                    ip.pool[t].t = l;
                    ip.pool.push(Slot { t: r, m: rm });
                    touched.push(np);
                } else {
                    let ls = Slot { t: l, m: std::mem::take(&mut ip.pool[t].m) };
                    let rs = Slot { t: r, m: rm };
                    check_slot(&ls, step, "split_by left part")?;
                    check_slot(&rs, step, "split_by right part")?;
                    let mut m = ls.m;
                    m.extend_from_slice(&rs.m);
                    ip.pool[t] = Slot { t: Treap::merge(ls.t, rs.t), m };
                }
                touched.push(t);
            }
            Op::Merge { t, u } => {
                if np >= 2 {
                    let t = pick(*t, np);
                    let mut u = pick(*u, np - 1);
                    if u >= t {
                        u += 1;
                    }
                    if ip.pool[t].m.len() + ip.pool[u].m.len() <= max_len {
                        if pending_before(&ip, t) || pending_before(&ip, u) {
                            st.nontrivial = true;
                            st.label("structural-op-with-pending-lazy");
                        }
                        let us = ip.pool.remove(u);
                        let t = if u < t { t - 1 } else { t };
                        let ts = std::mem::replace(&mut ip.pool[t].t, Treap::new());
                        ip.pool[t].t = Treap::merge(ts, us.t);
                        ip.pool[t].m.extend_from_slice(&us.m);
                        st.label("merge-two-treaps");
                        touched.push(t);
                    }
                }
            }
            Op::First { t } => {
                let t = pick(*t, np);
                let want = ip.pool[t].m.first().cloned();
                let got = ip.pool[t].t.first().map(|i| (i.id, i.val));
                vensure!(got == want, "first", "step {}: first() = {:?}, model {:?}", step, got, want);
                touched.push(t);
            }
            Op::Last { t } => {
                let t = pick(*t, np);
                let want = ip.pool[t].m.last().cloned();
                let got = ip.pool[t].t.last().map(|i| (i.id, i.val));
                vensure!(got == want, "last", "step {}: last() = {:?}, model {:?}", step, got, want);
                touched.push(t);
            }
            Op::Collect { t } => {
                let t = pick(*t, np);
                if pending_before(&ip, t) {
                    st.label("collect-with-pending-lazy");
                }
                let got: Vec<(u32, u32)> = ip.pool[t].t.collect().into_iter().map(|i| (i.id, i.val)).collect();
                vensure!(got == ip.pool[t].m, "collect", "step {}: collect() = {:?}, model {:?}", step, got, ip.pool[t].m);
                touched.push(t);
            }
            Op::RangeModify { t, l, r, m } => {
                let t = pick(*t, np);
                let len = ip.pool[t].m.len();
                if len > 0 {
                    if pending_before(&ip, t) {
                        st.nontrivial = true;
                        st.label("structural-op-with-pending-lazy");
                    }
                    let l = pick(*l, len);
                    let r = l + pick(*r, len - l);
                    let md = md_from_raw(*m);
                    if l == 0 && r == len - 1 && m % 3 != 0 {
                        // the whole treap: attach to its present root, without any split (the root may have been pushed by an
                        // earlier collect / first / last / split path)
                        if m % 2 == 0 {
                            ip.pool[t].t.root_mut().unwrap().apply(&md);
                        } else {
                            ip.pool[t].t.root.as_mut().unwrap().item.apply(&md);
                        }
                        for e in ip.pool[t].m.iter_mut() {
                            e.1 = aff(&md, e.1);
                        }
                        st.label("modification-attached-to-the-existing-root");
                        touched.push(t);
                    } else {
                    let whole = std::mem::replace(&mut ip.pool[t].t, Treap::new());
                    let (t12, t3) = whole.split_at(r + 1);
                    let (t1, mut t2) = t12.split_at(l);
                    vensure!(t2.size() == r - l + 1, "split_at/middle-size", "step {}: middle part [{}..={}] has size {}", step, l, r, t2.size());
                    if m % 3 == 1 {
                        // attached through the public node fields instead of root_mut()
                        t2.root.as_mut().unwrap().item.apply(&md);
                        st.label("modification-attached-through-public-fields");
                    } else {
                        t2.root_mut().unwrap().apply(&md);
                    }
                    for e in ip.pool[t].m[l..=r].iter_mut() {
                        e.1 = aff(&md, e.1);
                    }
                    ip.pool[t].t = Treap::merge(t1, Treap::merge(t2, t3));
                    if r > l {
                        st.label("range-modify-on-2+");
                    }
                    touched.push(t);
                    }
                }
            }
            Op::Move { t, from, u, to } => {
                let t = pick(*t, np);
                let u = pick(*u, np);
                if !ip.pool[t].m.is_empty() && (t == u || ip.pool[u].m.len() < max_len) {
                    if pending_before(&ip, t) || pending_before(&ip, u) {
                        st.nontrivial = true;
                        st.label("structural-op-with-pending-lazy");
                    }
                    let from = pick(*from, ip.pool[t].m.len());
                    let want = ip.pool[t].m.remove(from);
                    let got = ip.pool[t].t.remove_at(from);
                    vensure!((got.id, got.val) == want, "remove_at/value", "step {}: remove_at({}) returned (id {}, value {}), model removed {:?}", step, from, got.id, got.val, want);
                    let to = pick(*to, ip.pool[u].m.len() + 1);
                    ip.pool[u].m.insert(to, want);
                    ip.pool[u].t.insert_at(to, got);
                    st.label("move-removed-item");
                    touched.push(t);
                    touched.push(u);
                }
            }
            Op::Bulk { t, count, v, mode } => {
                let t = pick(*t, np);
                let room = max_len.saturating_sub(ip.pool[t].m.len());
                let count = (*count as usize).min(room);
                let mut x = *v as u64 | 1;
                for k in 0..count {
                    x = x.wrapping_mul(6364136223846793005).wrapping_add(1442695040888963407);
                    let len = ip.pool[t].m.len();
                    let pos = match mode % 4 {
                        0 => len,
                        1 => 0,
                        2 => len / 2,
                        _ => ((x >> 33) as usize) % (len + 1),
                    };
                    let it = ip.fresh((x >> 20) as u32);
                    ip.pool[t].m.insert(pos, (it.id, it.val));
                    if k % 2 == 0 {
                        ip.pool[t].t.insert_at(pos, it);
                    } else {
                        let mut node = TreapNode::new(it);
                        node.priority = ip.prio((x >> 7) as u32);
                        let (l, r) = TreapNode::split_at(ip.pool[t].t.root.take(), pos);
                        ip.pool[t].t.root = TreapNode::merge(TreapNode::merge(l, Some(Box::new(node))), r);
                    }
                }
                if ip.pool[t].m.len() > 1000 {
                    st.label("treap-longer-than-1000");
                }
                touched.push(t);
            }
            Op::RangeAggregate { t, l, r } => {
                let t = pick(*t, np);
                let len = ip.pool[t].m.len();
                if len > 0 {
                    if pending_before(&ip, t) {
                        st.nontrivial = true;
                        st.label("structural-op-with-pending-lazy");
                    }
                    let l = pick(*l, len);
                    let r = l + pick(*r, len - l);
                    let whole = std::mem::replace(&mut ip.pool[t].t, Treap::new());
                    let (t12, t3) = whole.split_at(r + 1);
                    let (t1, t2) = t12.split_at(l);
                    let got = t2.root().map(|i| i.agg.clone()).unwrap_or_default();
                    let want = ip.pool[t].m[l..=r].to_vec();
                    vensure!(got == want, "range-aggregate", "step {}: aggregate of [{}..={}] = {:?}, model {:?}", step, l, r, got, want);
                    ip.pool[t].t = Treap::merge(t1, Treap::merge(t2, t3));
                    touched.push(t);
                }
            }
        }
        if ip.pool.len() >= 2 {
            st.label("two-or-more-live-treaps");
        }
        for &t in &touched {
            if t < ip.pool.len() {
                let w = check_slot(&ip.pool[t], step, "after op")?;
                if w.ties > 0 {
                    st.label("priority-ties-present");
                }
            }
        }
    }
    // end of history: the mutating observers on every live treap
    for (i, s) in ip.pool.iter_mut().enumerate() {
        check_slot(s, case.ops.len(), "end")?;
        let f = s.t.first().map(|i| (i.id, i.val));
        vensure!(f == s.m.first().cloned(), "first", "end: treap {} first() = {:?}, model {:?}", i, f, s.m.first());
        let l = s.t.last().map(|i| (i.id, i.val));
        vensure!(l == s.m.last().cloned(), "last", "end: treap {} last() = {:?}, model {:?}", i, l, s.m.last());
        let got: Vec<(u32, u32)> = s.t.collect().into_iter().map(|i| (i.id, i.val)).collect();
        vensure!(got == s.m, "collect", "end: treap {} collect() = {:?}, model {:?}", i, got, s.m);
        let w = walk(&s.t.root);
        vensure!(w.pending_inner == 0, "collect/leaves-pending", "end: treap {} still has {} inner node(s) with a pending modification after collect()", i, w.pending_inner);
        check_slot(s, case.ops.len(), "end after collect")?;
    }
    Ok(st)
}

// ---------------------------------------------------------------------------------------------
// Strategies
// ---------------------------------------------------------------------------------------------

fn sel() -> impl Strategy<Value = u16> {
    prop_oneof![4 => any::<u16>(), 1 => Just(0u16), 1 => Just(u16::MAX)]
}

pub fn op() -> impl Strategy<Value = Op> {
    prop_oneof![
        2 => Just(Op::NewEmpty),
        4 => (any::<u32>(), any::<u32>()).prop_map(|(v, prio)| Op::FromItem { v, prio }),
        12 => (sel(), sel(), any::<u32>()).prop_map(|(t, pos, v)| Op::InsertAt { t, pos, v }),
        16 => (sel(), sel(), any::<u32>(), any::<u32>()).prop_map(|(t, pos, v, prio)| Op::InsertPrio { t, pos, v, prio }),
        5 => (sel(), sel()).prop_map(|(t, pos)| Op::RemoveAt { t, pos }),
        8 => (sel(), sel()).prop_map(|(t, pos)| Op::SplitAt { t, pos }),
        6 => (sel(), sel()).prop_map(|(t, k)| Op::SplitBy { t, k }),
        8 => (sel(), sel()).prop_map(|(t, u)| Op::Merge { t, u }),
        3 => sel().prop_map(|t| Op::First { t }),
        3 => sel().prop_map(|t| Op::Last { t }),
        2 => sel().prop_map(|t| Op::Collect { t }),
        16 => (sel(), sel(), sel(), any::<u32>()).prop_map(|(t, l, r, m)| Op::RangeModify { t, l, r, m }),
        6 => (sel(), sel(), sel()).prop_map(|(t, l, r)| Op::RangeAggregate { t, l, r }),
        6 => (sel(), sel(), sel(), sel()).prop_map(|(t, from, u, to)| Op::Move { t, from, u, to }),
    ]
}

pub fn case(max_ops: usize) -> impl Strategy<Value = Case> {
    (0u8..5, prop::collection::vec(op(), 0..max_ops)).prop_map(|(policy, ops)| Case { policy, ops, max_len: 0 })
}

/// few, short histories on long sequences (the walk after every op is O(n log n))
pub fn case_large(max_len: u16, max_ops: usize) -> impl Strategy<Value = Case> {
    let bulk = (sel(), 50u16..600, any::<u32>(), 0u8..4).prop_map(|(t, count, v, mode)| Op::Bulk { t, count, v, mode });
    let any_op = prop_oneof![1 => bulk, 6 => op()];
    (prop_oneof![Just(0u8), 0u8..5], any::<u32>(), 0u8..4, prop::collection::vec(any_op, 0..max_ops)).prop_map(move |(policy, v, mode, mut ops)| {
        ops.insert(0, Op::Bulk { t: 0, count: max_len / 2, v, mode });
        Case { policy, ops, max_len }
    })
}

// ---------------------------------------------------------------------------------------------
// Byte decoder for the libFuzzer target
// ---------------------------------------------------------------------------------------------

pub fn decode(data: &[u8]) -> Option<Case> {
    if data.is_empty() {
        return None;
    }
    let policy = data[0] % 5;
    let mut ops = Vec::new();
    for b in data[1..].chunks_exact(8) {
        let a = u16::from_le_bytes([b[1], b[2]]);
        let c = u16::from_le_bytes([b[3], b[4]]);
        let d = u16::from_le_bytes([b[5], b[6]]);
        let v = u32::from_le_bytes([b[4], b[5], b[6], b[7]]);
        ops.push(match b[0] % 24 {
            0 => Op::NewEmpty,
            1 => Op::FromItem { v, prio: v.rotate_left(13) },
            2 | 3 | 4 => Op::InsertAt { t: a, pos: c, v },
            5 | 6 | 7 | 8 => Op::InsertPrio { t: a, pos: c, v, prio: v.rotate_left(7) },
            9 => Op::RemoveAt { t: a, pos: c },
            10 | 11 => Op::SplitAt { t: a, pos: c },
            12 | 13 => Op::SplitBy { t: a, k: c },
            14 | 15 => Op::Merge { t: a, u: c },
            16 => Op::First { t: a },
            17 => Op::Last { t: a },
            18 => Op::Collect { t: a },
            19 | 20 | 21 => Op::RangeModify { t: a, l: c, r: d, m: v },
            22 => Op::Move { t: a, from: c, u: d, to: v as u16 },
            _ => Op::RangeAggregate { t: a, l: c, r: d },
        });
        if ops.len() >= 150 {
            break;
        }
    }
    Some(Case { policy, ops, max_len: 0 })
}
