//! Software reference for x87 extended precision (64-bit significand, round to nearest even,
//! exponent range not limited here — callers skip results outside the f80 normal range).

#[derive(Clone, Copy, Debug, PartialEq)]
pub enum F {
    Nan,
    Inf(bool),
    Zero(bool),
    /// value = (-1)^sign * sig * 2^(exp-63), sig has bit 63 set
    Num { sign: bool, exp: i32, sig: u64 },
}

#[derive(Clone, Copy, PartialEq, Eq, PartialOrd, Ord, Debug)]
struct U256 {
    hi: u128,
    lo: u128,
}

impl U256 {
    fn from_u64(x: u64) -> Self {
        Self { hi: 0, lo: x as u128 }
    }
    fn shl(self, s: u32) -> Self {
        if s == 0 {
            self
        } else if s >= 128 {
            Self { hi: self.lo << (s - 128), lo: 0 }
        } else {
            Self { hi: (self.hi << s) | (self.lo >> (128 - s)), lo: self.lo << s }
        }
    }
    fn add(self, o: Self) -> Self {
        let (lo, c) = self.lo.overflowing_add(o.lo);
        Self { hi: self.hi + o.hi + c as u128, lo }
    }
    fn sub(self, o: Self) -> Self {
        let (lo, b) = self.lo.overflowing_sub(o.lo);
        Self { hi: self.hi - o.hi - b as u128, lo }
    }
    fn bits(self) -> u32 {
        if self.hi != 0 {
            256 - self.hi.leading_zeros()
        } else {
            128 - self.lo.leading_zeros()
        }
    }
    fn bit(self, i: u32) -> bool {
        if i >= 128 {
            (self.hi >> (i - 128)) & 1 == 1
        } else {
            (self.lo >> i) & 1 == 1
        }
    }
    /// bits [i+63 ..= i] as u64
    fn extract64(self, i: u32) -> u64 {
        let mut v = 0u64;
        for k in 0..64 {
            if self.bit(i + k) {
                v |= 1 << k;
            }
        }
        v
    }
    fn any_below(self, i: u32) -> bool {
        // any bit strictly below position i
        if i == 0 {
            false
        } else if i >= 128 {
            self.lo != 0 || (i > 128 && (self.hi & ((1u128 << (i - 128)) - 1)) != 0)
        } else {
            (self.lo & ((1u128 << i) - 1)) != 0
        }
    }
    fn is_zero(self) -> bool {
        self.hi == 0 && self.lo == 0
    }
}

fn round(sign: bool, mut exp: i32, mut sig: u64, guard: bool, sticky: bool) -> (F, bool) {
    let inexact = guard || sticky;
    if guard && (sticky || sig & 1 == 1) {
        sig = sig.wrapping_add(1);
        if sig == 0 {
            sig = 1 << 63;
            exp += 1;
        }
    }
    (F::Num { sign, exp, sig }, inexact)
}

impl F {
    pub fn from_f64(x: f64) -> F {
        let b = x.to_bits();
        let sign = b >> 63 == 1;
        let e = ((b >> 52) & 0x7ff) as i32;
        let m = b & ((1 << 52) - 1);
        if e == 0x7ff {
            return if m == 0 { F::Inf(sign) } else { F::Nan };
        }
        if e == 0 {
            if m == 0 {
                return F::Zero(sign);
            }
            // subnormal: m * 2^-1074
            let lz = m.leading_zeros();
            let sig = m << lz;
            // value = sig * 2^(-1074 - lz) = sig * 2^(exp - 63)
            return F::Num { sign, exp: 63 - 1074 - lz as i32, sig };
        }
        let sig = ((1u64 << 52) | m) << 11;
        F::Num { sign, exp: e - 1023, sig }
    }

    pub fn is_nan(&self) -> bool {
        matches!(self, F::Nan)
    }

    pub fn neg(self) -> F {
        match self {
            F::Nan => F::Nan,
            F::Inf(s) => F::Inf(!s),
            F::Zero(s) => F::Zero(!s),
            F::Num { sign, exp, sig } => F::Num { sign: !sign, exp, sig },
        }
    }

    pub fn abs(self) -> F {
        match self {
            F::Nan => F::Nan,
            F::Inf(_) => F::Inf(false),
            F::Zero(_) => F::Zero(false),
            F::Num { exp, sig, .. } => F::Num { sign: false, exp, sig },
        }
    }

    /// (result, inexact)
    pub fn add(self, o: F) -> (F, bool) {
        use F::*;
        match (self, o) {
            (Nan, _) | (_, Nan) => (Nan, false),
            (Inf(a), Inf(b)) => (if a == b { Inf(a) } else { Nan }, false),
            (Inf(a), _) => (Inf(a), false),
            (_, Inf(b)) => (Inf(b), false),
            (Zero(a), Zero(b)) => (Zero(a && b), false),
            (Zero(_), x) | (x, Zero(_)) => (x, false),
            (Num { sign: sa, exp: ea, sig: ga }, Num { sign: sb, exp: eb, sig: gb }) => {
                // order so that a has the larger (or equal) exponent
                let (sa, ea, ga, sb, eb, gb) = if ea >= eb { (sa, ea, ga, sb, eb, gb) } else { (sb, eb, gb, sa, ea, ga) };
                let s = (ea - eb) as u32;
                if s > 130 {
                    // b is far below half an ulp of a (also below the half-size ulp under a power of two)
                    return (Num { sign: sa, exp: ea, sig: ga }, true);
                }
                let a = U256::from_u64(ga).shl(s);
                let b = U256::from_u64(gb);
                let (r, sign) = if sa == sb {
                    (a.add(b), sa)
                } else if a > b {
                    (a.sub(b), sa)
                } else if b > a {
                    (b.sub(a), sb)
                } else {
                    return (Zero(false), false);
                };
                debug_assert!(!r.is_zero());
                let l = r.bits();
                if l <= 64 {
                    let sig = r.lo as u64;
                    let sh = 64 - l;
                    (Num { sign, exp: eb - sh as i32, sig: sig << sh }, false)
                } else {
                    let low = l - 64;
                    let sig = r.extract64(low);
                    let guard = r.bit(low - 1);
                    let sticky = r.any_below(low - 1);
                    round(sign, eb + low as i32, sig, guard, sticky)
                }
            }
        }
    }

    pub fn sub(self, o: F) -> (F, bool) {
        self.add(o.neg())
    }

    pub fn mul(self, o: F) -> (F, bool) {
        use F::*;
        let sgn = |x: &F| match x {
            Inf(s) | Zero(s) => *s,
            Num { sign, .. } => *sign,
            Nan => false,
        };
        match (self, o) {
            (Nan, _) | (_, Nan) => (Nan, false),
            (Inf(_), Zero(_)) | (Zero(_), Inf(_)) => (Nan, false),
            (Inf(_), _) | (_, Inf(_)) => (Inf(sgn(&self) ^ sgn(&o)), false),
            (Zero(_), _) | (_, Zero(_)) => (Zero(sgn(&self) ^ sgn(&o)), false),
            (Num { sign: sa, exp: ea, sig: ga }, Num { sign: sb, exp: eb, sig: gb }) => {
                let p = ga as u128 * gb as u128;
                if p >> 127 == 1 {
                    round(sa ^ sb, ea + eb + 1, (p >> 64) as u64, (p >> 63) & 1 == 1, p & ((1u128 << 63) - 1) != 0)
                } else {
                    round(sa ^ sb, ea + eb, (p >> 63) as u64, (p >> 62) & 1 == 1, p & ((1u128 << 62) - 1) != 0)
                }
            }
        }
    }

    pub fn div(self, o: F) -> (F, bool) {
        use F::*;
        let sgn = |x: &F| match x {
            Inf(s) | Zero(s) => *s,
            Num { sign, .. } => *sign,
            Nan => false,
        };
        match (self, o) {
            (Nan, _) | (_, Nan) => (Nan, false),
            (Inf(_), Inf(_)) | (Zero(_), Zero(_)) => (Nan, false),
            (Inf(_), _) => (Inf(sgn(&self) ^ sgn(&o)), false),
            (_, Inf(_)) => (Zero(sgn(&self) ^ sgn(&o)), false),
            (Zero(_), _) => (Zero(sgn(&self) ^ sgn(&o)), false),
            (_, Zero(_)) => (Inf(sgn(&self) ^ sgn(&o)), false),
            (Num { sign: sa, exp: ea, sig: ga }, Num { sign: sb, exp: eb, sig: gb }) => {
                let n = (ga as u128) << 64;
                let q = n / gb as u128;
                let r = n % gb as u128;
                if q >> 64 != 0 {
                    // 65-bit quotient
                    round(sa ^ sb, ea - eb, (q >> 1) as u64, q & 1 == 1, r != 0)
                } else {
                    let twice = r * 2;
                    let guard = twice >= gb as u128;
                    let sticky = if guard { twice > gb as u128 } else { r != 0 };
                    round(sa ^ sb, ea - eb - 1, q as u64, guard, sticky)
                }
            }
        }
    }

    /// IEEE ordering: None if unordered
    pub fn cmp(self, o: F) -> Option<std::cmp::Ordering> {
        use std::cmp::Ordering::*;
        use F::*;
        // map to (sign, magnitude key)
        let key = |x: &F| -> Option<(bool, i64, u64)> {
            match x {
                Nan => None,
                Zero(_) => Some((false, i64::MIN, 0)),
                Inf(s) => Some((*s, i64::MAX, 0)),
                Num { sign, exp, sig } => Some((*sign, *exp as i64, *sig)),
            }
        };
        let (a, b) = (key(&self)?, key(&o)?);
        let za = a.1 == i64::MIN;
        let zb = b.1 == i64::MIN;
        if za && zb {
            return Some(Equal);
        }
        let sa = if za { false } else { a.0 };
        let sb = if zb { false } else { b.0 };
        let mag = (a.1, a.2).cmp(&(b.1, b.2));
        Some(match (sa, sb, za, zb) {
            (_, _, true, false) => {
                if sb {
                    Greater
                } else {
                    Less
                }
            }
            (_, _, false, true) => {
                if sa {
                    Less
                } else {
                    Greater
                }
            }
            (false, true, _, _) => Greater,
            (true, false, _, _) => Less,
            (false, false, _, _) => mag,
            (true, true, _, _) => mag.reverse(),
        })
    }

    /// the 10-byte x87 encoding, None if the value is outside the normal range (or NaN: payload unspecified)
    pub fn encode(self) -> Option<[u8; 10]> {
        let (sig, se): (u64, u16) = match self {
            F::Nan => return None,
            F::Inf(s) => (1 << 63, (s as u16) << 15 | 0x7fff),
            F::Zero(s) => (0, (s as u16) << 15),
            F::Num { sign, exp, sig } => {
                if exp < -16382 || exp > 16383 {
                    return None;
                }
                (sig, (sign as u16) << 15 | (exp + 16383) as u16)
            }
        };
        let mut b = [0u8; 10];
        b[..8].copy_from_slice(&sig.to_le_bytes());
        b[8..].copy_from_slice(&se.to_le_bytes());
        Some(b)
    }

    pub fn decode(b: &[u8; 10]) -> F {
        let sig = u64::from_le_bytes(b[..8].try_into().unwrap());
        let se = u16::from_le_bytes([b[8], b[9]]);
        let sign = se >> 15 == 1;
        let e = (se & 0x7fff) as i32;
        if e == 0x7fff {
            return if sig << 1 == 0 { F::Inf(sign) } else { F::Nan };
        }
        if sig == 0 {
            return F::Zero(sign);
        }
        if e == 0 {
            let lz = sig.leading_zeros();
            return F::Num { sign, exp: -16382 - lz as i32, sig: sig << lz };
        }
        if sig >> 63 == 0 {
            // unnormal: invalid on modern x87
            return F::Nan;
        }
        F::Num { sign, exp: e - 16383, sig }
    }

    /// correctly rounded conversion to f64 (round to nearest even, IEEE overflow / gradual underflow)
    pub fn to_f64(self) -> f64 {
        match self {
            F::Nan => f64::NAN,
            F::Inf(s) => {
                if s {
                    f64::NEG_INFINITY
                } else {
                    f64::INFINITY
                }
            }
            F::Zero(s) => {
                if s {
                    -0.0
                } else {
                    0.0
                }
            }
            F::Num { sign, exp, sig } => {
                let sbit = (sign as u64) << 63;
                if exp > 1023 {
                    return f64::from_bits(sbit | 0x7ff0_0000_0000_0000);
                }
                // number of significand bits that fit: 53 for normals, fewer for subnormals
                let keep: i32 = if exp >= -1022 { 53 } else { 53 - (-1022 - exp) };
                if keep < 0 {
                    // below half of the smallest subnormal, or exactly in (0, 2^-1075]: rounds to 0 unless > 2^-1075
                    // keep == -1 .. : value < 2^-1075 → 0 ; keep == 0 handled below
                    return f64::from_bits(sbit);
                }
                let drop = 64 - keep as u32; // 11..=64
                let (mant, guard, sticky) = if drop == 64 {
                    (0u64, sig >> 63 == 1, sig << 1 != 0)
                } else {
                    (sig >> drop, (sig >> (drop - 1)) & 1 == 1, sig & ((1u64 << (drop - 1)) - 1) != 0)
                };
                let mut m = mant;
                if guard && (sticky || m & 1 == 1) {
                    m += 1;
                }
                if exp >= -1022 {
                    // m in [2^52, 2^53]
                    let mut e = exp + 1023;
                    if m >> 53 == 1 {
                        m >>= 1;
                        e += 1;
                    }
                    if e >= 0x7ff {
                        return f64::from_bits(sbit | 0x7ff0_0000_0000_0000);
                    }
                    f64::from_bits(sbit | (e as u64) << 52 | (m & ((1 << 52) - 1)))
                } else {
                    // subnormal (or rounds up into the smallest normal): m * 2^-1074
                    f64::from_bits(sbit | m)
                }
            }
        }
    }
}
