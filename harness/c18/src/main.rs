//! C18: f80 arithmetic is correctly rounded (64-bit significand, nearest-even); comparisons follow IEEE order.

mod soft;

use proptest::prelude::*;
use rlib_f80::f80;
use serde::{Deserialize, Serialize};
use soft::F;
use std::cmp::Ordering;
use vcore::{vensure, CaseResult, CaseStats, Ctx, SplitMix, Violation};

#[derive(Clone, Debug, Hash, Serialize, Deserialize, PartialEq)]
enum Case {
    Pair { a: u64, b: u64 },
    /// full binary tree of depth 3: 8 f64 leaves, 7 operators (0 +, 1 -, 2 *, 3 /)
    Chain { leaves: Vec<u64>, ops: Vec<u8> },
    /// other public entry points (Display with and without precision, Debug, Default, abs/min/max, conversions) of `vals`, then the
    /// full pair oracle on (a, b): whatever those calls leave behind in the x87 unit must not change later arithmetic
    Fmt { vals: Vec<u64>, a: u64, b: u64 },
    /// in-place updates between comparisons of the same variables: `while acc < limit { acc += step }` (trip count), a running maximum
    /// over `vals`, and `a < b; a += c; a < b`
    InPlace { start: u64, step: u64, limit: u64, vals: Vec<u64> },
}

/// (control word, top-of-stack field of the status word) of the x87 unit on this thread
fn x87_state() -> (u16, u16) {
    let mut cw: u16 = 0;
    let mut sw: u16 = 0;
    unsafe {
        core::arch::asm!("fnstcw word ptr [{0}]", "fnstsw word ptr [{1}]", in(reg) &mut cw, in(reg) &mut sw, options(nostack));
    }
    (cw, (sw >> 11) & 7)
}

fn lib_bytes(x: f80) -> [u8; 10] {
    x.verif_bytes()
}

fn show(b: &[u8; 10]) -> String {
    let sig = u64::from_le_bytes(b[..8].try_into().unwrap());
    let se = u16::from_le_bytes([b[8], b[9]]);
    format!("[sign {} exp {:#06x} sig {:#018x}]", se >> 15, se & 0x7fff, sig)
}

/// compare a library value with the reference; Ok(false) = skipped (outside the f80 normal range)
fn same(what: &str, ctx: &str, got: f80, want: F) -> Result<bool, Violation> {
    let gb = lib_bytes(got);
    if want.is_nan() {
        vensure!(F::decode(&gb).is_nan(), what, "{} {}: library result {} is not NaN, reference says NaN", what, ctx, show(&gb));
        return Ok(true);
    }
    match want.encode() {
        None => Ok(false),
        Some(wb) => {
            vensure!(gb == wb, what, "{} {}: library result {}, correctly rounded result {}", what, ctx, show(&gb), show(&wb));
            Ok(true)
        }
    }
}

fn apply(op: u8, a: F, b: F) -> (F, bool) {
    match op % 4 {
        0 => a.add(b),
        1 => a.sub(b),
        2 => a.mul(b),
        _ => a.div(b),
    }
}

fn apply_lib(op: u8, a: f80, b: f80) -> f80 {
    match op % 4 {
        0 => a + b,
        1 => a - b,
        2 => a * b,
        _ => a / b,
    }
}

const OPS: [&str; 4] = ["add", "sub", "mul", "div"];

fn special(x: f64) -> bool {
    x.is_nan() || x == 0.0 || x.is_infinite() || (x != 0.0 && x.abs() < f64::MIN_POSITIVE)
}

fn relations(ctx: &str, x: f80, y: f80, rx: F, ry: F) -> Result<(), Violation> {
    let ord = rx.cmp(ry);
    let w_lt = ord == Some(Ordering::Less);
    let w_gt = ord == Some(Ordering::Greater);
    let w_eq = ord == Some(Ordering::Equal);
    vensure!((x < y) == w_lt, "lt", "{}: a < b is {}, IEEE says {}", ctx, x < y, w_lt);
    vensure!((x > y) == w_gt, "gt", "{}: a > b is {}, IEEE says {}", ctx, x > y, w_gt);
    vensure!((x <= y) == (w_lt || w_eq), "le", "{}: a <= b is {}, IEEE says {}", ctx, x <= y, w_lt || w_eq);
    vensure!((x >= y) == (w_gt || w_eq), "ge", "{}: a >= b is {}, IEEE says {}", ctx, x >= y, w_gt || w_eq);
    vensure!(x.partial_cmp(&y) == ord, "partial_cmp", "{}: partial_cmp = {:?}, IEEE order {:?}", ctx, x.partial_cmp(&y), ord);
    #[allow(clippy::eq_op)]
    {
        vensure!((x == y) == w_eq, "eq", "{}: a == b is {}, but the values are {}", ctx, x == y, if w_eq { "equal" } else { "not equal / unordered" });
        vensure!((x != y) == !w_eq, "ne", "{}: a != b is {}, expected {}", ctx, x != y, !w_eq);
    }
    // abs
    same("abs", ctx, x.abs(), rx.abs()).map(|_| ()).or_else(|v| {
        // abs(-0): either zero accepted as long as it is value-equal
        if let F::Zero(_) = rx { Ok(()) } else { Err(v) }
    })?;
    // min / max
    let (mn, mx) = (F::decode(&lib_bytes(x.min(y))), F::decode(&lib_bytes(x.max(y))));
    if rx.is_nan() || ry.is_nan() {
        // only "one of the operands" is required (DESIGN §6.3); a NaN operand stays a NaN whatever its payload
        let one_of = |r: F| (r.is_nan() && (rx.is_nan() || ry.is_nan())) || (!r.is_nan() && (r == rx || r == ry));
        vensure!(one_of(mn), "min-nan", "{}: min is neither operand", ctx);
        vensure!(one_of(mx), "max-nan", "{}: max is neither operand", ctx);
    } else {
        let (wmin, wmax) = if w_gt { (ry, rx) } else { (rx, ry) };
        vensure!(mn.cmp(wmin) == Some(Ordering::Equal), "min", "{}: min = {:?}, expected a value equal to {:?}", ctx, mn, wmin);
        vensure!(mx.cmp(wmax) == Some(Ordering::Equal), "max", "{}: max = {:?}, expected a value equal to {:?}", ctx, mx, wmax);
        vensure!(mn == rx || mn == ry, "min", "{}: min is neither operand", ctx);
        vensure!(mx == rx || mx == ry, "max", "{}: max is neither operand", ctx);
    }
    Ok(())
}

fn pair(a: u64, b: u64) -> CaseResult {
    let mut st = CaseStats::default();
    let (fa, fb) = (f64::from_bits(a), f64::from_bits(b));
    let (x, y) = (f80::from(fa), f80::from(fb));
    let (rx, ry) = (F::from_f64(fa), F::from_f64(fb));
    let ctx = format!("a = {:e} ({:#018x}), b = {:e} ({:#018x})", fa, a, fb, b);
    // f64 -> f80 is exact, f80 -> f64 the identity
    same("from-f64", &ctx, x, rx)?;
    let back = f64::from(x);
    vensure!(back.to_bits() == a || (fa.is_nan() && back.is_nan()), "roundtrip-f64", "{}: f64 -> f80 -> f64 gave {:e} ({:#018x})", ctx, back, back.to_bits());
    same("neg", &ctx, -x, rx.neg())?;
    let mut inexact_any = false;
    for op in 0..4u8 {
        let (want, inexact) = apply(op, rx, ry);
        inexact_any |= inexact;
        let got = apply_lib(op, x, y);
        if !same(OPS[op as usize], &ctx, got, want)? {
            st.label("result-outside-f80-range-skipped");
            continue;
        }
        // assigning forms agree
        let mut t = x;
        match op {
            0 => t += y,
            1 => t -= y,
            2 => t *= y,
            _ => t /= y,
        }
        vensure!(lib_bytes(t) == lib_bytes(got) || want.is_nan(), "assign-form", "{}: {}_assign differs from {}", ctx, OPS[op as usize], OPS[op as usize]);
        // f80 -> f64 rounds correctly (single rounding of the exact f80 value)
        if !want.is_nan() {
            let g64 = f64::from(got);
            let w64 = want.to_f64();
            vensure!(g64.to_bits() == w64.to_bits(), "to-f64", "{}: {} converted to f64 gives {:e} ({:#018x}), correctly rounded {:e} ({:#018x})", ctx, OPS[op as usize], g64, g64.to_bits(), w64, w64.to_bits());
        }
    }
    relations(&ctx, x, y, rx, ry)?;
    if inexact_any || special(fa) || special(fb) {
        st.nontrivial = true;
    }
    if fa.is_nan() || fb.is_nan() {
        st.label("nan-operand");
    }
    if (fa == 0.0 && fb == 0.0) && (a != b) {
        st.label("signed-zero-pair");
    }
    Ok(st)
}

fn chain(leaves: &[u64], ops: &[u8]) -> CaseResult {
    let mut st = CaseStats::default();
    if leaves.len() != 8 || ops.len() != 7 {
        return Ok(st);
    }
    let mut lib: Vec<f80> = leaves.iter().map(|&b| f80::from(f64::from_bits(b))).collect();
    let mut rf: Vec<F> = leaves.iter().map(|&b| F::from_f64(f64::from_bits(b))).collect();
    let mut k = 0;
    let mut wide_operand = false;
    let mut inexact_any = false;
    while lib.len() > 1 {
        let mut nl = Vec::new();
        let mut nr = Vec::new();
        for i in (0..lib.len()).step_by(2) {
            let op = ops[k];
            k += 1;
            if let F::Num { sig, .. } = rf[i] {
                if sig & 0x7ff != 0 {
                    wide_operand = true; // needs more than 53 significand bits
                }
            }
            let (want, inexact) = apply(op, rf[i], rf[i + 1]);
            inexact_any |= inexact;
            let got = apply_lib(op, lib[i], lib[i + 1]);
            let ctx = format!("chain node {} ({}) of leaves {:x?} ops {:?}", k - 1, OPS[op as usize % 4], leaves, ops);
            if !same(OPS[op as usize % 4], &ctx, got, want)? {
                st.label("result-outside-f80-range-skipped");
                return Ok(st);
            }
            if !want.is_nan() {
                let (g64, w64) = (f64::from(got), want.to_f64());
                vensure!(g64.to_bits() == w64.to_bits(), "to-f64", "{}: converted to f64 gives {:e}, correctly rounded {:e}", ctx, g64, w64);
            }
            nl.push(got);
            nr.push(want);
        }
        // relations between sibling results
        if nl.len() >= 2 {
            relations("chain siblings", nl[0], nl[1], nr[0], nr[1])?;
        }
        lib = nl;
        rf = nr;
    }
    if wide_operand && inexact_any {
        st.nontrivial = true;
        st.label("operand-with-more-than-53-significand-bits");
    }
    Ok(st)
}

fn fmt_then_pair(vals: &[u64], a: u64, b: u64) -> CaseResult {
    use std::fmt::Write;
    let mut sink = String::new();
    for (i, &v) in vals.iter().enumerate() {
        let x = f80::from(f64::from_bits(v));
        match i % 7 {
            0 => write!(sink, "{}", x).unwrap(),
            1 => write!(sink, "{:?}", x).unwrap(),
            2 => write!(sink, "{:.3}", x).unwrap(),
            3 => write!(sink, "{:12.0} {:+}", x, x).unwrap(),
            4 => write!(sink, "{:#?} {}", x, f80::default()).unwrap(),
            5 => write!(sink, "{}", f64::from(x.abs().min(f80::from(1e19)).max(-x))).unwrap(),
            _ => write!(sink, "{:e}", f64::from(x)).unwrap(),
        }
        sink.clear();
    }
    let mut st = pair(a, b)?;
    st.label("arithmetic-after-formatting-and-conversions");
    Ok(st)
}

fn in_place(start: u64, step: u64, limit: u64, vals: &[u64]) -> CaseResult {
    let mut st = CaseStats::default();
    let (s0, d, l) = (f64::from_bits(start), f64::from_bits(step), f64::from_bits(limit));
    // (1) trip count of an accumulation loop; the comparison always reads the same two variables
    let (mut acc, step80, lim80) = (f80::from(s0), f80::from(d), f80::from(l));
    let (mut racc, rstep, rlim) = (F::from_f64(s0), F::from_f64(d), F::from_f64(l));
    let (mut trips, mut rtrips) = (0u32, 0u32);
    while acc < lim80 && trips < 40 {
        acc += step80;
        trips += 1;
    }
    while racc.cmp(rlim) == Some(Ordering::Less) && rtrips < 40 {
        racc = racc.add(rstep).0;
        rtrips += 1;
    }
    vensure!(trips == rtrips, "lt", "`while acc < limit {{ acc += step }}` from {:e} by {:e} up to {:e} ran {} times, IEEE arithmetic and order give {}", s0, d, l, trips, rtrips);
    if racc.encode().is_some() {
        same("add", "accumulator after the loop", acc, racc)?;
    }
    // (2) running maximum / minimum with the comparison operators
    if !vals.is_empty() {
        let (mut best, mut rbest) = (f80::from(f64::from_bits(vals[0])), F::from_f64(f64::from_bits(vals[0])));
        let (mut low, mut rlow) = (best, rbest);
        for &v in &vals[1..] {
            let (x, rx) = (f80::from(f64::from_bits(v)), F::from_f64(f64::from_bits(v)));
            if x > best {
                best = x;
            }
            if rx.cmp(rbest) == Some(Ordering::Greater) {
                rbest = rx;
            }
            if x <= low {
                low = x;
            }
            if matches!(rx.cmp(rlow), Some(Ordering::Less) | Some(Ordering::Equal)) {
                rlow = rx;
            }
        }
        vensure!(F::decode(&lib_bytes(best)).cmp(rbest) == rbest.cmp(rbest), "gt", "running maximum of {:x?} by `if x > best {{ best = x }}` gives {}, IEEE order gives {:?}", vals, show(&lib_bytes(best)), rbest);
        vensure!(F::decode(&lib_bytes(low)).cmp(rlow) == rlow.cmp(rlow), "le", "running minimum of {:x?} by `if x <= low {{ low = x }}` gives {}, IEEE order gives {:?}", vals, show(&lib_bytes(low)), rlow);
        if !rbest.is_nan() {
            vensure!(F::decode(&lib_bytes(best)).cmp(rbest) == Some(Ordering::Equal), "gt", "running maximum of {:x?} gives {}, expected {:?}", vals, show(&lib_bytes(best)), rbest);
        }
        if !rlow.is_nan() {
            vensure!(F::decode(&lib_bytes(low)).cmp(rlow) == Some(Ordering::Equal), "le", "running minimum of {:x?} gives {}, expected {:?}", vals, show(&lib_bytes(low)), rlow);
        }
    }
    // (3) the same comparison before and after one operand changed in place
    let (mut a, b, c) = (f80::from(s0), f80::from(l), f80::from(d));
    let (ra, rb, rc) = (F::from_f64(s0), F::from_f64(l), F::from_f64(d));
    let first = a < b;
    a += c;
    let second = a < b;
    let eq_after = a == b;
    let ra2 = ra.add(rc).0;
    vensure!(first == (ra.cmp(rb) == Some(Ordering::Less)), "lt", "{:e} < {:e} is {}", s0, l, first);
    vensure!(second == (ra2.cmp(rb) == Some(Ordering::Less)), "lt", "after `a += {:e}` (a was {:e}) the comparison a < {:e} is {}, IEEE says {}", d, s0, l, second, !second);
    vensure!(eq_after == (ra2.cmp(rb) == Some(Ordering::Equal)), "eq", "after `a += {:e}` (a was {:e}) a == {:e} is {}", d, s0, l, eq_after);
    #[allow(clippy::eq_op)]
    {
        vensure!(f80::default() == f80::from(0.0), "eq", "f80::default() == f80::from(0.0) is false");
    }
    st.nontrivial = trips > 0;
    st.label("comparisons-after-in-place-updates");
    Ok(st)
}

fn run_case(c: &Case) -> CaseResult {
    let before = x87_state();
    let r = match c {
        Case::Pair { a, b } => pair(*a, *b),
        Case::Chain { leaves, ops } => chain(leaves, ops),
        Case::Fmt { vals, a, b } => fmt_then_pair(vals, *a, *b),
        Case::InPlace { start, step, limit, vals } => in_place(*start, *step, *limit, vals),
    };
    let after = x87_state();
    let st = r?;
    vensure!(after.0 == before.0, "x87-state/control-word", "the x87 control word changed from {:#06x} to {:#06x} during {:?}: later arithmetic on this thread rounds differently", before.0, after.0, c);
    vensure!(after.1 == before.1, "x87-state/stack", "the x87 register stack pointer moved from {} to {} during {:?}: a register was leaked or popped", before.1, after.1, c);
    Ok(st)
}

fn boundary_set() -> Vec<u64> {
    let mut v: Vec<f64> = vec![0.0, -0.0, 1.0, -1.0, 2.0, 0.5, 3.0, 1.0 / 3.0, 0.1, -0.1, 10.0, 1e300, -1e300, 1e-300, f64::MAX, f64::MIN, f64::MIN_POSITIVE, -f64::MIN_POSITIVE, f64::INFINITY, f64::NEG_INFINITY, f64::NAN, f64::EPSILON, 1.0 + f64::EPSILON, 1.0 - f64::EPSILON / 2.0];
    for k in [-1074i32, -1073, -1023, -1022, -1021, -53, -52, -1, 0, 1, 52, 53, 54, 63, 64, 65, 1022, 1023] {
        let p = 2f64.powi(k);
        v.push(p);
        v.push(-p);
        if p.is_finite() && p != 0.0 {
            v.push(f64::from_bits(p.to_bits() + 1));
            if p.to_bits() > 1 {
                v.push(f64::from_bits(p.to_bits() - 1));
            }
        }
    }
    let mut bits: Vec<u64> = v.iter().map(|x| x.to_bits()).collect();
    // subnormals, all-ones / alternating significands (long carries), NaN patterns
    bits.extend_from_slice(&[
        1, 2, 3, 0x000F_FFFF_FFFF_FFFF, 0x0008_0000_0000_0000, 0x8000_0000_0000_0001, 0x800F_FFFF_FFFF_FFFF,
        0x3FEF_FFFF_FFFF_FFFF, 0x3FFF_FFFF_FFFF_FFFF, 0x400F_FFFF_FFFF_FFFF, 0x3FF5_5555_5555_5555, 0x3FFA_AAAA_AAAA_AAAA, 0x4035_5555_5555_5555,
        0x7FEF_FFFF_FFFF_FFFE, 0x0010_0000_0000_0001, 0x433F_FFFF_FFFF_FFFF, 0x4340_0000_0000_0001, 0xC340_0000_0000_0001,
        0x7FF8_0000_0000_0000, 0xFFF8_0000_0000_0000, 0x7FF0_0000_0000_0001, 0x7FFF_FFFF_FFFF_FFFF, 0xFFF4_0000_0000_0000,
        0x3FF0_0000_0000_0001, 0x3FF0_0000_0000_0002, 0x3FF0_0000_0000_0003, 0xBFF0_0000_0000_0001, 0x3CA0_0000_0000_0000, 0x3CA0_0000_0000_0001, 0x3C9F_FFFF_FFFF_FFFF,
    ]);
    bits.sort_unstable();
    bits.dedup();
    bits
}

fn leaf() -> impl Strategy<Value = u64> {
    prop_oneof![
        4 => any::<u64>(),
        3 => prop::sample::select(boundary_set()),
        3 => (-1000.0f64..1000.0).prop_map(|x| x.to_bits()),
        2 => (any::<u64>(), 1000u64..1100).prop_map(|(m, e)| (m & 0x800F_FFFF_FFFF_FFFF) | (e << 52)),
    ]
}

fn control_word() -> u16 {
    let mut cw: u16 = 0;
    unsafe {
        core::arch::asm!("fnstcw word ptr [{0}]", in(reg) &mut cw, options(nostack));
    }
    cw
}

fn main() {
    let mut ctx = Ctx::init("C18");
    ctx.rule(
        "Cases: (a) every ordered pair from a boundary set of ~170 f64 bit patterns (signed zeros, min/max subnormals, powers of two \
         2^k and their neighbours for k in {-1074..1023}, all-ones and alternating significands, 1/3, 0.1, huge/tiny, infinities, quiet \
         and signalling-pattern NaNs), (b) random bit patterns, (c) expression trees of depth 3 over 8 f64 leaves whose inner operands \
         carry full 64-bit significands, (d) the pair oracle run right after the other public entry points (Display with and without precision, Debug, Default, abs/min/max, conversions) were called on 1..7 values incl. NaN, infinities and magnitudes beyond 2^63, (e) comparisons of the same variables before and after in-place updates (trip count of `while acc < limit { acc += step }`, running maximum/minimum, a < b after a += c) against the reference order. After every case the x87 control word and register-stack pointer of the thread must be what they were before it. For each pair: f64->f80 exact (raw bytes), f80->f64 identity, neg, +,-,*,/ and the assigning \
         forms must equal the software reference (exact result via 256-bit alignment / 128-bit product / long division with sticky bit, \
         round to nearest even at 64 bits, IEEE rules for zeros, infinities, invalid operations) bit for bit through the raw-bytes hook; \
         f80->f64 of every result must be the single correct rounding; <,<=,>,>=,partial_cmp,==,!= must follow the IEEE order of the \
         values (NaN unordered, -0 = +0); abs/min/max value-equal to the IEEE answer (with a NaN operand: one of the operands). Results \
         whose exponent leaves the f80 normal range are skipped and counted. Non-trivial = a result that needed rounding or an operand \
         that is NaN, +-0, infinite or subnormal; chains: an inner operand with more than 53 significand bits and an inexact node. \
         Distinct = distinct (sub-check, case).",
    );
    ctx.assume("the x87 control word is the Linux default (64-bit precision control, round to nearest); read once with fnstcw, otherwise the run is inconclusive");
    ctx.assume("which operand min/max return for a NaN operand, and the payload of NaN results, are unspecified (DESIGN §6.3)");
    let cw = control_word();
    ctx.extra("x87_control_word", serde_json::json!(format!("{:#06x}", cw)));
    if (cw >> 8) & 3 != 3 || (cw >> 10) & 3 != 0 {
        ctx.inconclusive(&format!("x87 control word {:#06x}: precision control is not 64-bit / rounding is not nearest-even", cw));
        ctx.finish();
    }
    ctx.replayer("f80-case", |v| run_case(&serde_json::from_value::<Case>(v.clone()).expect("case")));
    ctx.begin();
    {
        use rlib_num_traits::ZeroOne;
        let z = lib_bytes(<f80 as ZeroOne>::ZERO);
        let o = lib_bytes(<f80 as ZeroOne>::ONE);
        let ok = z == lib_bytes(f80::from(0.0)) && o == lib_bytes(f80::from(1.0)) && lib_bytes(f80::default()) == z;
        if !ok {
            let v = Violation::new("constants", format!("f80::ZERO / ONE / default() are not the encodings of 0.0 and 1.0: {} {}", show(&z), show(&o)));
            ctx.violation("constants", "f80-case", &Case::Pair { a: 0, b: 0x3ff0000000000000 }, &v);
        }
    }
    let set = boundary_set();
    let n = set.len();
    let s2 = set.clone();
    let pairs = set.into_iter().flat_map(move |a| s2.clone().into_iter().map(move |b| Case::Pair { a, b }));
    ctx.exhaustive("boundary-pairs", "f80-case", &format!("all {}x{} ordered pairs of the boundary set", n, n), true, pairs, run_case);
    ctx.prop_split("random-pairs", "f80-case", ctx.n(50_000, 40_000_000), ctx.parts(), (leaf(), leaf()).prop_map(|(a, b)| Case::Pair { a, b }).boxed(), run_case);
    ctx.prop_split("chains", "f80-case", ctx.n(20_000, 12_000_000), ctx.parts(), (prop::collection::vec(leaf(), 8), prop::collection::vec(0u8..4, 7)).prop_map(|(leaves, ops)| Case::Chain { leaves, ops }).boxed(), run_case);
    let special = || prop_oneof![3 => leaf(), 1 => Just(f64::NAN.to_bits()), 1 => Just(f64::INFINITY.to_bits()), 1 => Just(f64::NEG_INFINITY.to_bits()), 1 => Just(1e19f64.to_bits()), 1 => Just((-9.3e18f64).to_bits()), 1 => Just(9223372036854775808.0f64.to_bits()), 1 => Just(0f64.to_bits()), 1 => Just(1e-320f64.to_bits())];
    ctx.prop_split("arithmetic-after-formatting", "f80-case", ctx.n(20_000, 6_000_000), ctx.parts(), (prop::collection::vec(special(), 1..8), leaf(), leaf()).prop_map(|(vals, a, b)| Case::Fmt { vals, a, b }).boxed(), run_case);
    let small = || prop_oneof![4 => (-20.0f64..20.0).prop_map(|x| x.to_bits()), 2 => (-3i32..=3).prop_map(|k| (k as f64).to_bits()), 1 => (0.01f64..0.6).prop_map(|x| x.to_bits()), 1 => leaf()];
    ctx.prop_split("comparisons-after-in-place-updates", "f80-case", ctx.n(20_000, 6_000_000), ctx.parts(), (small(), small(), small(), prop::collection::vec(prop_oneof![3 => small(), 1 => leaf()], 0..9)).prop_map(|(start, step, limit, vals)| Case::InPlace { start, step, limit, vals }).boxed(), run_case);
    let _ = SplitMix(0);
    ctx.finish();
}
