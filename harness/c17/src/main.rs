//! C17: concurrent treap construction. Parent = proptest over workload specs; every workload runs in a
//! fresh child process (the priority source is process state). See DESIGN.md §4 C17.

#[path = "../../c03/src/light.rs"]
mod light;
use light::*;
use proptest::prelude::*;
use rlib_treap::{Treap, TreapNode, TreePrinter};
use serde::{Deserialize, Serialize};
use std::sync::atomic::{AtomicBool, AtomicUsize, Ordering};
use std::sync::Arc;
use std::time::Instant;
use vcore::{vensure, CaseResult, CaseStats, Ctx, SplitMix, Violation};

#[derive(Clone, Debug, Hash, Serialize, Deserialize, PartialEq)]
struct Spec {
    /// per-thread: (number of node creations, script seed, yield-every (0 = never), spin iterations before start)
    threads: Vec<(u32, u32, u16, u16)>,
    /// thread churn: while threads[0] keeps creating nodes, this many short-lived threads (each creating
    /// `short_n` nodes) are spawned and joined one batch after the other
    #[serde(default)]
    churn: Option<(u32, u16)>,
}

#[derive(Serialize, Deserialize, Default)]
struct ThreadOut {
    prios: Vec<u32>,
    err: Option<String>,
    t_first_ns: u64,
    t_last_ns: u64,
    height: usize,
    size: usize,
    /// hash of the tree rendering (TreePrinter + Debug) taken while the other threads were still running
    #[serde(default)]
    render: u64,
}

#[derive(Serialize, Deserialize, Default)]
struct ChildOut {
    threads: Vec<ThreadOut>,
}

const CAP: usize = 1024;

fn render(t: &Treap<Lt>) -> String {
    format!("{:?}\n{:?}", TreePrinter::new(t), t)
}

thread_local! {
    /// the final tree of the script that ran on this thread (taken by the spawning code to re-render it in quiescence)
    static FINAL_TREE: std::cell::RefCell<Option<Treap<Lt>>> = std::cell::RefCell::new(None);
}

/// One thread's script: create nodes (recording their priorities), insert them, keep the treap bounded,
/// compare with a Vec model throughout.
fn script(n: u32, seed: u32, yield_every: u16, t0: Instant) -> ThreadOut {
    script_until(n, seed, yield_every, t0, None)
}

/// like `script`, but with a stop flag: runs at least `n` creations and then until the flag is set (at most 3*10^6)
fn script_until(n: u32, seed: u32, yield_every: u16, t0: Instant, stop: Option<Arc<AtomicBool>>) -> ThreadOut {
    let mut out = ThreadOut::default();
    out.prios.reserve(n as usize);
    let mut rng = SplitMix(seed as u64 * 0x9E37 + 1);
    let mut t: Treap<Lt> = Treap::new();
    let mut m: Vec<u32> = Vec::new();
    let mut err = None;
    let limit = if stop.is_some() { 3_000_000 } else { n };
    for i in 0..limit {
        if let Some(f) = &stop {
            if i >= n && f.load(Ordering::Acquire) {
                break;
            }
        }
        if yield_every != 0 && i % yield_every as u32 == 0 {
            std::thread::yield_now();
        }
        let v = rng.next() as u32;
        let pos = rng.below(m.len() as u64 + 1) as usize;
        // node creation through the public constructor; priority read from the public field
        let node = if i % 3 == 0 {
            let tr = Treap::from_item(Lt::new(v));
            tr.root.unwrap()
        } else {
            Box::new(TreapNode::new(Lt::new(v)))
        };
        let now = t0.elapsed().as_nanos() as u64;
        if i == 0 {
            out.t_first_ns = now;
        }
        out.t_last_ns = now;
        out.prios.push(node.priority);
        let (l, r) = TreapNode::split_at(t.root.take(), pos);
        t.root = TreapNode::merge(TreapNode::merge(l, Some(node)), r);
        m.insert(pos, v);
        match rng.below(16) {
            0 => {
                // rotation by split + swapped merge
                let p = rng.below(m.len() as u64 + 1) as usize;
                let (l, r) = std::mem::replace(&mut t, Treap::new()).split_at(p);
                t = Treap::merge(r, l);
                m.rotate_left(p);
            }
            1 => {
                let f = t.first().map(|x| x.val);
                if f != m.first().cloned() && err.is_none() {
                    err = Some(format!("creation {}: first() = {:?}, model {:?}", i, f, m.first()));
                }
            }
            2 => {
                let l = t.last().map(|x| x.val);
                if l != m.last().cloned() && err.is_none() {
                    err = Some(format!("creation {}: last() = {:?}, model {:?}", i, l, m.last()));
                }
            }
            _ => {}
        }
        while m.len() > CAP || (rng.below(8) == 0 && !m.is_empty()) {
            let p = rng.below(m.len() as u64) as usize;
            let got = t.remove_at(p).val;
            let want = m.remove(p);
            if got != want && err.is_none() {
                err = Some(format!("creation {}: remove_at({}) = {}, model {}", i, p, got, want));
            }
        }
        if t.size() != m.len() && err.is_none() {
            err = Some(format!("creation {}: size() = {}, model {}", i, t.size(), m.len()));
        }
        if i % 4096 == 1 && err.is_none() {
            // rendering is a pure function of the (thread-owned) tree: two renderings in a row must be identical
            let (a, b) = (render(&t), render(&t));
            if a != b {
                err = Some(format!("creation {}: two consecutive renderings of the same thread-owned treap differ (lengths {} and {})", i, a.len(), b.len()));
            }
        }
    }
    let got: Vec<u32> = t.collect().into_iter().map(|x| x.val).collect();
    if got != m && err.is_none() {
        err = Some(format!("final content differs from the model (lengths {} vs {})", got.len(), m.len()));
    }
    let sh = shape(&t.root, None);
    if !heap_ok(&sh) && err.is_none() {
        err = Some(format!("heap order violated: {} edges, {} parent<=child, {} parent>=child", sh.edges, sh.edges_le, sh.edges_ge));
    }
    if sh.size_errors != 0 && err.is_none() {
        err = Some(format!("{} nodes with a wrong size field", sh.size_errors));
    }
    out.height = sh.height;
    out.size = sh.nodes;
    out.err = err;
    out.render = vcore::hash_of(&render(&t));
    FINAL_TREE.with(|f| *f.borrow_mut() = Some(t));
    out
}

/// run a script on this thread and hand back its final tree as well
fn script_with_tree(n: u32, seed: u32, ye: u16, t0: Instant, stop: Option<Arc<AtomicBool>>) -> (ThreadOut, Option<Treap<Lt>>) {
    let o = script_until(n, seed, ye, t0, stop);
    let t = FINAL_TREE.with(|f| f.borrow_mut().take());
    (o, t)
}

/// after all threads have been joined: the rendering taken under concurrency must equal a quiescent rendering
fn recheck_renderings(mut outs: Vec<(ThreadOut, Option<Treap<Lt>>)>) -> Vec<ThreadOut> {
    for (i, (o, t)) in outs.iter_mut().enumerate() {
        if let Some(t) = t {
            let quiet = vcore::hash_of(&render(t));
            if quiet != o.render && o.err.is_none() {
                o.err = Some(format!("thread {}: the rendering of its final treap taken while other threads were running differs from the rendering of the same treap after all threads were joined", i));
            }
        }
    }
    outs.into_iter().map(|(o, _)| o).collect()
}

fn child(mode: &str, spec: &Spec) -> ChildOut {
    let t0 = Instant::now();
    match mode {
        // reference stream on the main thread of a fresh process
        "solo-main" => ChildOut { threads: vec![script(spec.threads[0].0, spec.threads[0].1, 0, t0)] },
        // reference stream on a fresh thread
        "solo-thread" => {
            let s = spec.clone();
            ChildOut { threads: vec![std::thread::spawn(move || script(s.threads[0].0, s.threads[0].1, 0, t0)).join().unwrap()] }
        }
        // token passing: thread i runs completely before thread i+1 starts
        "sequential" => {
            let mut outs = Vec::new();
            for &(n, seed, _, _) in &spec.threads {
                outs.push(std::thread::spawn(move || script(n, seed, 0, t0)).join().unwrap());
            }
            ChildOut { threads: outs }
        }
        // a very long-lived thread (more than 2^24 node creations) with short-lived threads started - and finished - at milestones of
        // its life ("long-interleaved"), versus the same threads one after another ("long-sequential"). Thread 0 reports one digest
        // per 4096 draws, the short threads their priorities.
        "long-interleaved" | "long-sequential" => {
            let total = spec.threads[0].0 as usize;
            let milestones: Vec<usize> = spec.threads[1..].iter().map(|t| t.0 as usize).collect();
            let interleaved = mode == "long-interleaved";
            let short = |k: usize| -> ThreadOut {
                std::thread::spawn(move || {
                    let mut o = ThreadOut::default();
                    o.prios = (0..40).map(|i| TreapNode::new(Lt::new(k as u32 * 100 + i)).priority).collect();
                    o
                })
                .join()
                .unwrap()
            };
            let ms = milestones.clone();
            let (tx, rx) = std::sync::mpsc::channel::<Vec<ThreadOut>>();
            let long = std::thread::spawn(move || {
                let mut o = ThreadOut::default();
                let mut shorts = Vec::new();
                let mut h: u64 = 0xcbf29ce484222325;
                let mut next_ms = 0usize;
                for i in 0..total {
                    if interleaved && next_ms < ms.len() && i == ms[next_ms] {
                        shorts.push(short(next_ms));
                        next_ms += 1;
                    }
                    let p = TreapNode::new(Lt::new(0)).priority;
                    h = (h ^ p as u64).wrapping_mul(0x100000001b3);
                    if i % 4096 == 4095 || i + 1 == total {
                        o.prios.push((h ^ (h >> 32)) as u32);
                    }
                }
                let _ = tx.send(shorts);
                o
            });
            let a = long.join().unwrap();
            let mut shorts = rx.recv().unwrap_or_default();
            if !interleaved {
                for k in 0..milestones.len() {
                    shorts.push(short(k));
                }
            }
            let mut all = vec![a];
            all.extend(shorts);
            ChildOut { threads: all }
        }
        "churn" => {
            let (count, short_n) = spec.churn.unwrap_or((4200, 2));
            let stop = Arc::new(AtomicBool::new(false));
            let (n, seed, ye, _) = spec.threads[0];
            let st = stop.clone();
            let worker = std::thread::spawn(move || script_with_tree(n, seed, ye, t0, Some(st)));
            let mut outs: Vec<(ThreadOut, Option<Treap<Lt>>)> = Vec::new();
            let mut k = 0u32;
            while k < count {
                let batch: Vec<_> = (0..32.min(count - k)).map(|j| std::thread::spawn(move || script_with_tree(short_n as u32, 1000 + k + j, 0, t0, None))).collect();
                k += batch.len() as u32;
                for h in batch {
                    outs.push(h.join().unwrap());
                }
            }
            stop.store(true, Ordering::Release);
            let mut all = vec![worker.join().unwrap()];
            all.extend(outs);
            ChildOut { threads: recheck_renderings(all) }
        }
        _ => {
            let go = Arc::new(AtomicBool::new(false));
            let ready = Arc::new(AtomicUsize::new(0));
            let k = spec.threads.len();
            let hs: Vec<_> = spec
                .threads
                .iter()
                .map(|&(n, seed, ye, spin)| {
                    let go = go.clone();
                    let ready = ready.clone();
                    std::thread::spawn(move || {
                        ready.fetch_add(1, Ordering::SeqCst);
                        if spin == u16::MAX {
                            // tight gate: busy-wait without yielding, so that the threads' first creations fall together
                            while !go.load(Ordering::Acquire) {
                                std::hint::spin_loop();
                            }
                        } else {
                            while !go.load(Ordering::Acquire) {
                                std::thread::yield_now();
                            }
                            for _ in 0..spin {
                                std::hint::spin_loop();
                            }
                        }
                        script_with_tree(n, seed, ye, t0, None)
                    })
                })
                .collect();
            while ready.load(Ordering::SeqCst) < k {
                std::thread::yield_now();
            }
            go.store(true, Ordering::Release);
            ChildOut { threads: recheck_renderings(hs.into_iter().map(|h| h.join().unwrap()).collect()) }
        }
    }
}

fn run_child(mode: &str, spec: &Spec) -> Result<ChildOut, String> {
    let exe = std::env::current_exe().map_err(|e| e.to_string())?;
    let out = std::process::Command::new(exe)
        .arg("--child")
        .arg(mode)
        .arg(serde_json::to_string(spec).unwrap())
        .output()
        .map_err(|e| e.to_string())?;
    let err = String::from_utf8_lossy(&out.stderr);
    if err.contains("ThreadSanitizer") {
        // sanitizer build: any report is a violation (data race in the library or between library and harness threads)
        let head: Vec<&str> = err.lines().filter(|l| l.contains("ThreadSanitizer") || l.contains("rlib_treap") || l.contains("Location is")).take(8).collect();
        return Err(format!("TSAN {}", head.join(" | ")));
    }
    if !out.status.success() {
        use std::os::unix::process::ExitStatusExt;
        // A child that dies inside library code (panic under /repo, stack overflow = SIGABRT/SIGSEGV) is a finding; a child that
        // could not do its job for environmental reasons (killed by the OOM killer, thread spawn refused, a panic in harness code)
        // says nothing about the property: "ENV " errors are reported as inconclusive (exit 2), never as a violation.
        let library_panic = err.lines().any(|l| l.contains("panicked at") && l.contains("/repo/"));
        let killed = out.status.signal() == Some(9);
        let env = !library_panic && (killed || (out.status.signal().is_none() && (err.contains("failed to spawn thread") || err.contains("Resource temporarily unavailable") || err.contains("Cannot allocate memory") || err.contains("panicked at"))));
        return Err(format!("{}child ended with {:?}: {}", if env { "ENV " } else { "" }, out.status, err.chars().take(400).collect::<String>()));
    }
    serde_json::from_slice(&out.stdout).map_err(|e| format!("child output: {}", e))
}

fn child_error(e: String) -> Violation {
    if e.starts_with("TSAN ") {
        Violation::new("tsan/data-race", e)
    } else if e.starts_with("ENV ") {
        Violation::new("harness-panic@child", e)
    } else {
        Violation::new("child-crash", e)
    }
}

fn is_subsequence(s: &[u32], of: &[u32]) -> bool {
    let mut j = 0;
    for &x in s {
        while j < of.len() && of[j] != x {
            j += 1;
        }
        if j == of.len() {
            return false;
        }
        j += 1;
    }
    true
}

#[derive(Clone, Copy, PartialEq, Debug)]
enum StreamShape {
    /// one synchronised generator shared by all threads
    Global,
    /// one generator per thread, identically seeded
    PerThread,
    /// one generator per thread, the stream determined by the order in which threads first draw ("rank")
    ByRank,
    Unknown,
}

/// reference streams by rank: a token-passing run in which the thread of rank r draws `lens[r]` priorities
fn rank_reference(lens: &[u32]) -> Result<Vec<Vec<u32>>, String> {
    let spec = Spec { threads: lens.iter().map(|&n| (n.max(1), 1, 0, 0)).collect(), churn: None };
    Ok(run_child("sequential", &spec)?.threads.into_iter().map(|t| t.prios).collect())
}

fn judge(spec: &Spec, out: &ChildOut, shape_kind: StreamShape, s_proc: &[u32], s_thr: &[u32]) -> CaseResult {
    let mut st = CaseStats::default();
    st.size = spec.threads.iter().map(|t| t.0 as u64).sum();
    // (1) + (2): functional results and heap order per thread
    for (i, t) in out.threads.iter().enumerate() {
        if let Some(e) = &t.err {
            return Err(Violation::new("thread-results", format!("thread {} of {}: {}", i, out.threads.len(), e)));
        }
        let bound = 5.0 * ((t.size + 1) as f64).log2() + 20.0;
        vensure!((t.height as f64) <= bound, "height", "thread {}: treap of {} nodes has height {}", i, t.size, t.height);
    }
    // overlap classification (never used for the verdict)
    let mut overlapping = 0;
    for (i, a) in out.threads.iter().enumerate() {
        if out.threads.iter().enumerate().any(|(j, b)| i != j && a.t_first_ns < b.t_last_ns && b.t_first_ns < a.t_last_ns) {
            overlapping += 1;
        }
    }
    if overlapping >= 2 {
        st.nontrivial = true;
        st.label("creation-windows-overlap");
    } else {
        st.label("no-overlap");
    }
    // (3) stream invariant
    match shape_kind {
        StreamShape::Unknown => st.label("stream-oracle-skipped"),
        StreamShape::ByRank => {
            // Pass 1: a sequential execution with as many threads, 16 draws each, tells which rank's stream every concurrent
            // thread is on (ranks are handed out in the order of first use, which the scheduler decides).
            const PROBE: u32 = 16;
            let nthreads = out.threads.len();
            let probe = rank_reference(&vec![PROBE; nthreads]).map_err(child_error)?;
            let mut by_first: std::collections::HashMap<u32, Vec<usize>> = Default::default();
            for (r, s) in probe.iter().enumerate() {
                by_first.entry(s[0]).or_default().push(r);
            }
            let mut rank_of: Vec<Option<usize>> = vec![None; nthreads];
            let mut used = vec![false; nthreads];
            for (i, t) in out.threads.iter().enumerate() {
                if t.prios.is_empty() {
                    continue;
                }
                let cands = match by_first.get(&t.prios[0]) {
                    Some(c) => c,
                    None => {
                        return Err(Violation::new(
                            "stream/no-sequential-execution",
                            format!("thread {} of {}: its priority stream (starting {:?}) is not the stream of any thread in a sequential execution", i, nthreads, &t.prios[..t.prios.len().min(4)]),
                        ))
                    }
                };
                let agrees = |r: usize| {
                    let m = t.prios.len().min(probe[r].len());
                    t.prios[..m] == probe[r][..m]
                };
                let r = match cands.iter().copied().find(|&r| agrees(r)) {
                    Some(r) => r,
                    None => {
                        let r = cands[0];
                        let m = t.prios.len().min(probe[r].len());
                        return Err(Violation::new(
                            "stream/per-thread",
                            format!(
                                "thread {}: its priority stream starts like the stream of the {}-th thread of a sequential execution but departs from it at draw {} (a draw was lost, repeated or taken from another thread's stream)",
                                i, r, t.prios.iter().zip(probe[r].iter()).position(|(a, b)| a != b).unwrap_or(m)
                            ),
                        ));
                    }
                };
                vensure!(!used[r], "stream/duplicated-stream", "two threads observed the same priority stream (that of the {}-th thread of a sequential execution)", r);
                used[r] = true;
                rank_of[i] = Some(r);
            }
            // Pass 2: the sequential execution in which the thread of rank r draws exactly as many priorities as the concurrent
            // thread that was on rank r's stream; every concurrent stream must equal its rank's stream draw for draw.
            if out.threads.iter().any(|t| t.prios.len() > PROBE as usize) {
                let mut lens = vec![1u32; nthreads];
                for (i, t) in out.threads.iter().enumerate() {
                    if let Some(r) = rank_of[i] {
                        lens[r] = t.prios.len() as u32;
                    }
                }
                let full = rank_reference(&lens).map_err(child_error)?;
                for (i, t) in out.threads.iter().enumerate() {
                    if let Some(r) = rank_of[i] {
                        let m = t.prios.len().min(full[r].len());
                        vensure!(
                            t.prios[..m] == full[r][..m],
                            "stream/per-thread",
                            "thread {}: its priority stream starts like the stream of the {}-th thread of a sequential execution but departs from it at draw {} (a draw was lost, repeated or taken from another thread's stream)",
                            i, r, t.prios.iter().zip(full[r].iter()).position(|(a, b)| a != b).unwrap_or(m)
                        );
                    }
                }
            }
            st.label("stream-by-rank");
        }
        StreamShape::PerThread => {
            for (i, t) in out.threads.iter().enumerate() {
                // (a stream longer than the reference is compared on the reference's length)
                let n = t.prios.len().min(s_thr.len());
                vensure!(
                    t.prios[..n] == s_thr[..n],
                    "stream/per-thread",
                    "thread {}: its priority stream differs from the stream a thread observes when run alone (first difference at draw {})",
                    i,
                    t.prios.iter().zip(s_thr.iter()).position(|(a, b)| a != b).unwrap_or(n.min(s_thr.len()))
                );
            }
            st.label("stream-per-thread");
        }
        StreamShape::Global => {
            let total: usize = out.threads.iter().map(|t| t.prios.len()).sum();
            let mut all: Vec<u32> = out.threads.iter().flat_map(|t| t.prios.iter().cloned()).collect();
            let mut want: Vec<u32> = s_proc[..total.min(s_proc.len())].to_vec();
            all.sort_unstable();
            want.sort_unstable();
            if all != want {
                // count duplicated / foreign draws for the message
                let mut dup = 0;
                for w in all.windows(2) {
                    if w[0] == w[1] {
                        dup += 1;
                    }
                }
                let mut wd = 0;
                for w in want.windows(2) {
                    if w[0] == w[1] {
                        wd += 1;
                    }
                }
                return Err(Violation::new(
                    "stream/lost-or-duplicated-draw",
                    format!(
                        "{} threads made {} priority draws; as a multiset they are not the first {} draws of the sequential stream ({} equal adjacent pairs among the concurrent draws vs {} in the sequential prefix): draws were lost or handed out twice",
                        out.threads.len(), total, total, dup, wd
                    ),
                ));
            }
            for (i, t) in out.threads.iter().enumerate() {
                vensure!(is_subsequence(&t.prios, s_proc), "stream/order", "thread {}: its draws are not a subsequence of the sequential stream", i);
            }
            st.label("stream-global");
        }
    }
    Ok(st)
}

fn spec_strategy(max_threads: usize, lo: u32, hi: u32) -> impl Strategy<Value = Spec> {
    prop::collection::vec(
        (lo..hi, any::<u32>(), prop_oneof![Just(0u16), 1u16..64, 64u16..2048], prop_oneof![Just(0u16), any::<u16>()]),
        2..=max_threads,
    )
    .prop_map(|threads| Spec { threads, churn: None })
}

fn main() {
    let args: Vec<String> = std::env::args().collect();
    if args.len() >= 4 && args[1] == "--child" {
        let spec: Spec = serde_json::from_str(&args[3]).expect("spec");
        let out = child(&args[2], &spec);
        println!("{}", serde_json::to_string(&out).unwrap());
        return;
    }
    let mut ctx = Ctx::init("C17");
    ctx.rule(
        "A case is a concurrent workload: 2..=8 threads, each with a script of 20k..200k node creations (TreapNode::new / \
         Treap::from_item) interleaved with split/merge/remove/first/last on a thread-owned treap, generated yield/spin jitter, a \
         yield start gate; each workload runs in a fresh child process. Oracle: (1) every thread's observations and final content equal \
         its own Vec model, and renderings of its treap (TreePrinter, Debug) taken under concurrency equal consecutive and quiescent renderings, (2) heap order and height bound in every thread's treap, (3) history invariant on the per-thread priority \
         streams: either the union of all draws is exactly a prefix of the sequential stream and each thread's draws are a subsequence \
         of it (one synchronised generator), or every thread sees the stream a lone thread sees (identical per-thread generators), or every thread sees the stream of a distinct thread of a token-passing sequential execution (per-thread generators seeded by order of first use); which of the \
         three applies is learnt from token-passing sequential runs of the library itself. With per-thread generators, one more workload: a thread creating 2^24 + 20000 nodes with short-lived threads started and finished at creations 1000, 65600, 1048700 and 16777300 of it must see, and give the short threads, exactly the streams of the execution in which the short threads run afterwards (digest per 4096 draws). Non-trivial = at least two threads' creation \
         windows overlapped in time (timestamps used for this classification only). Distinct = distinct workload specs.",
    );
    ctx.assume("the OS scheduler is not controlled: interference is provoked (yield gate, real treap work, jitter), not enumerated; a race that never perturbs a draw is only visible to the ThreadSanitizer tier");
    ctx.assume("reference streams are produced by the library itself in fresh processes, not from knowledge of the generator");

    // reference streams
    let tsan = std::env::var("VERIF_PROFILE").as_deref() == Ok("tsan");
    let kmax: u32 = if tsan { 60_000 } else { ctx.n(450_000, 1_700_000) as u32 };
    let ref_spec = Spec { threads: vec![(kmax, 7, 0, 0)], churn: None };
    let s_proc = match run_child("solo-main", &ref_spec) {
        Ok(o) => o.threads.into_iter().next().unwrap().prios,
        Err(e) => {
            ctx.inconclusive(&format!("reference run failed: {}", e));
            ctx.finish();
        }
    };
    let s_thr = match run_child("solo-thread", &ref_spec) {
        Ok(o) => o.threads.into_iter().next().unwrap().prios,
        Err(e) => {
            ctx.inconclusive(&format!("reference run failed: {}", e));
            ctx.finish();
        }
    };
    // which design? token passing: two threads, one after the other
    let seq_spec = Spec { threads: vec![(1000, 1, 0, 0), (1000, 2, 0, 0)], churn: None };
    let shape_kind = match run_child("sequential", &seq_spec) {
        Ok(o) => {
            let (a, b) = (&o.threads[0].prios, &o.threads[1].prios);
            if a[..] == s_proc[..1000] && b[..] == s_proc[1000..2000] {
                StreamShape::Global
            } else if a[..] == s_thr[..1000] && b[..] == s_thr[..1000] {
                StreamShape::PerThread
            } else {
                // per-thread streams that depend only on the order of first use? then a second sequential run repeats them
                match run_child("sequential", &seq_spec) {
                    Ok(o2) if o2.threads[0].prios == *a && o2.threads[1].prios == *b && a != b => StreamShape::ByRank,
                    _ => StreamShape::Unknown,
                }
            }
        }
        Err(_) => StreamShape::Unknown,
    };
    println!("stream shape learnt from sequential runs: {:?}", shape_kind);
    if shape_kind == StreamShape::Unknown {
        println!("INCONCLUSIVE-STREAM property=C17 the priority source is neither one shared stream nor identical per-thread streams; stream oracle skipped");
    }
    ctx.extra("stream_shape", serde_json::json!(format!("{:?}", shape_kind)));

    let sp = s_proc.clone();
    let stt = s_thr.clone();
    let runner = move |spec: &Spec| -> CaseResult {
        let out = run_child(if spec.churn.is_some() { "churn" } else { "concurrent" }, spec).map_err(child_error)?;
        judge(spec, &out, shape_kind, &sp, &stt)
    };
    {
        let r2 = runner.clone();
        ctx.replayer("c17-workload", move |v| {
            let spec: Spec = serde_json::from_value(v.clone()).expect("spec");
            // a schedule-dependent failure may need several attempts to reproduce
            let mut last = r2(&spec);
            for _ in 0..9 {
                if last.is_err() {
                    break;
                }
                last = r2(&spec);
            }
            last
        });
    }
    ctx.begin();
    if std::env::var("VERIF_PROFILE").as_deref() == Ok("tsan") {
        // ThreadSanitizer build (thorough tier): smaller workloads, the happens-before analysis does the work
        ctx.prop_cfg("tsan-workloads", "c17-workload", 40, 4, spec_strategy(6, 2_000, 6_000), &runner);
        ctx.finish();
    }
    let max_threads = 8;
    ctx.prop_cfg("workloads", "c17-workload", ctx.n(24, 200), 12, spec_strategy(max_threads, 20_000, 55_000), &runner);
    // thread churn: one long-lived worker while thousands of short-lived threads come and go (thread identifiers
    // and thread-local slots get recycled; state keyed by them must not be shared with a live thread)
    let churn = (20_000u32..60_000, any::<u32>(), prop_oneof![Just(0u16), 1u16..512], 4_200u32..9_000, 1u16..4)
        .prop_map(|(n, seed, ye, count, short_n)| Spec { threads: vec![(n, seed, ye, 0)], churn: Some((count, short_n)) });
    ctx.prop_cfg("thread-churn", "c17-workload", ctx.n(3, 30), 4, churn, &runner);
    ctx.prop_cfg("long-workloads", "c17-workload", ctx.n(4, 40), 6, spec_strategy(8, 100_000, 200_000), &runner);
    // first creations of a fresh process falling together: 8..16 threads behind a tight (non-yielding) gate, a few dozen creations
    // each, many fresh processes (one-time initialisation of shared state - "who is the first thread?" - happens exactly here)
    let together = (8usize..=16, 20u32..80, any::<u32>()).prop_map(|(k, n, seed)| Spec { threads: (0..k).map(|i| (n, seed.wrapping_add(i as u32), 0, u16::MAX)).collect(), churn: None });
    ctx.prop_cfg("simultaneous-first-creations", "c17-workload", ctx.n(40, 600), 4, together, &runner);
    // one very long-lived thread (beyond 2^16, 2^20 and 2^24 node creations) with short-lived threads started and finished at
    // milestones of its life, against the same threads one after another: with per-thread generators every stream must be the same in
    // both executions (a generator that re-seeds itself from shared state after N draws, say, gives the long thread a continuation
    // that depends on who started meanwhile)
    if matches!(shape_kind, StreamShape::ByRank | StreamShape::PerThread) {
        let long_runner = |spec: &Spec| -> CaseResult {
            let a = run_child("long-interleaved", spec).map_err(child_error)?;
            let b = run_child("long-sequential", spec).map_err(child_error)?;
            let mut st = CaseStats::default();
            st.size = spec.threads[0].0 as u64;
            vensure!(a.threads.len() == b.threads.len(), "child-crash", "long-lived workload: {} and {} thread reports", a.threads.len(), b.threads.len());
            for (i, (x, y)) in a.threads.iter().zip(b.threads.iter()).enumerate() {
                if x.prios != y.prios {
                    let at = x.prios.iter().zip(y.prios.iter()).position(|(p, q)| p != q).unwrap_or(x.prios.len().min(y.prios.len()));
                    let what = if i == 0 { format!("the long-lived thread's stream differs from draw {} on (4096-draw digests)", at * 4096) } else { format!("short-lived thread {} (started at creation {} of the long-lived thread) differs at draw {}", i, spec.threads[i].0, at) };
                    return Err(Violation::new(
                        "stream/no-sequential-execution",
                        format!("long-lived workload {:?}: {} between the execution in which the short-lived threads run at their milestones and the one in which they run afterwards; threads that share no treap influenced each other's priority streams", spec.threads.iter().map(|t| t.0).collect::<Vec<_>>(), what),
                    ));
                }
            }
            st.nontrivial = true;
            st.label("long-lived-thread-beyond-2^24-creations");
            Ok(st)
        };
        ctx.replayer("c17-long", move |v| long_runner(&serde_json::from_value::<Spec>(v.clone()).expect("spec")));
        let total = (1u32 << 24) + 20_000;
        let specs = vec![Spec { threads: vec![(total, 0, 0, 0), (1_000, 0, 0, 0), (65_600, 0, 0, 0), (1_048_700, 0, 0, 0), (16_777_300, 0, 0, 0)], churn: None }];
        ctx.exhaustive("long-lived-thread", "c17-long", "one thread creating 2^24 + 20000 nodes, short-lived threads at creations 1000, 65600, 1048700 and 16777300 of it", false, specs, long_runner);
    } else {
        ctx.class("long-lived-thread-check-skipped-shared-stream-design", 1);
    }
    ctx.finish();
}
