//! C11: gcd, lcm, egcd, crt against brute force / i128 identities.

use proptest::prelude::*;
use rlib_gcd::{crt, egcd, gcd, lcm};
use serde::{Deserialize, Serialize};
use vcore::{vensure, CaseResult, CaseStats, Ctx};

#[derive(Clone, Debug, Hash, Serialize, Deserialize, PartialEq)]
enum Case {
    /// egcd(a,b,c) over i64 (+ gcd/lcm of a,b)
    Lin { a: i64, b: i64, c: i64 },
    /// crt(a1,m1,a2,m2) over i64
    Crt { a1: i64, m1: i64, a2: i64, m2: i64 },
    /// gcd / lcm on one of the 12 integer types; operands as i128 / u128 text-free raw values
    Typed { ty: u8, a: i128, b: i128 },
    /// crt over a narrower signed type (0 = i16, 1 = i32): the lcm and every intermediate of the textbook method fit, m1*m2 need not
    CrtNarrow { ty: u8, a1: i64, m1: i64, a2: i64, m2: i64 },
}

/// independent gcd: binary (Stein) on magnitudes
fn bgcd(a: u128, b: u128) -> u128 {
    if a == 0 {
        return b;
    }
    if b == 0 {
        return a;
    }
    let shift = (a | b).trailing_zeros();
    let mut a = a >> a.trailing_zeros();
    let mut b = b;
    loop {
        b >>= b.trailing_zeros();
        if a > b {
            std::mem::swap(&mut a, &mut b);
        }
        b -= a;
        if b == 0 {
            return a << shift;
        }
    }
}

fn lin(a: i64, b: i64, c: i64) -> CaseResult {
    let mut st = CaseStats::default();
    let g = bgcd(a.unsigned_abs() as u128, b.unsigned_abs() as u128) as i128;
    if a.abs() <= 64 && b.abs() <= 64 {
        // definition by brute force on the small cube
        let mut best = 0i128;
        for k in 1..=64i128 {
            if a as i128 % k == 0 && b as i128 % k == 0 {
                best = k;
            }
        }
        vensure!(best == g, "harness/gcd-reference", "reference gcd disagrees with the definition on ({}, {})", a, b);
    }
    let got = gcd(a, b);
    vensure!(got as i128 == g, "gcd", "gcd({}, {}) = {}, expected {}", a, b, got, g);
    vensure!(gcd(b, a) as i128 == g, "gcd", "gcd({}, {}) = {}, expected {}", b, a, gcd(b, a), g);
    // lcm * gcd = |a*b|, lcm >= 0
    let l = lcm(a, b) as i128;
    vensure!(l >= 0 && l * g == (a as i128 * b as i128).abs(), "lcm", "lcm({}, {}) = {}, but gcd = {} and |a*b| = {}", a, b, l, g, (a as i128 * b as i128).abs());
    let r = egcd(a, b, c);
    let solvable = c as i128 % g == 0;
    match r {
        Some((x, y)) => {
            vensure!(solvable, "egcd/spurious-solution", "egcd({}, {}, {}) = Some(({}, {})) although gcd {} does not divide c", a, b, c, x, y, g);
            vensure!(
                a as i128 * x as i128 + b as i128 * y as i128 == c as i128,
                "egcd/wrong-solution",
                "egcd({}, {}, {}) = ({}, {}) but a*x+b*y = {}",
                a, b, c, x, y, a as i128 * x as i128 + b as i128 * y as i128
            );
        }
        None => vensure!(!solvable, "egcd/missed-solution", "egcd({}, {}, {}) = None although gcd {} divides c", a, b, c, g),
    }
    if a == 0 || b == 0 || a < 0 || b < 0 || c < 0 {
        st.nontrivial = true;
        st.label("zero-or-negative-operand");
    }
    if !solvable {
        st.label("no-solution");
    }
    Ok(st)
}

fn chinese(a1: i64, m1: i64, a2: i64, m2: i64) -> CaseResult {
    chinese_with(a1, m1, a2, m2, crt(a1, m1, a2, m2))
}

fn chinese_narrow(ty: u8, a1: i64, m1: i64, a2: i64, m2: i64) -> CaseResult {
    let max: i128 = if ty % 2 == 0 { i16::MAX as i128 } else { i32::MAX as i128 };
    let g = bgcd(m1 as u128, m2 as u128) as i128;
    let l = m1 as i128 / g * m2 as i128;
    // domain: the combined modulus fits, and so does (|a2-a1|/g + 1) * (max(m1,m2)/g + 1) * 4 - a generous bound on the cofactors any
    // Euclid-based method forms
    let c = (a2 as i128 - a1 as i128).abs();
    if m1 < 1 || m2 < 1 || a1 < 0 || a2 < 0 || a1 >= m1 || a2 >= m2 || l > max || (c / g + 1) * ((m1.max(m2) as i128) / g + 1) * 4 > max {
        return Ok(CaseStats::default());
    }
    let got = if ty % 2 == 0 { crt(a1 as i16, m1 as i16, a2 as i16, m2 as i16).map(|x| x as i64) } else { crt(a1 as i32, m1 as i32, a2 as i32, m2 as i32).map(|x| x as i64) };
    let mut st = chinese_with(a1, m1, a2, m2, got)?;
    if m1 as i128 * m2 as i128 > max {
        st.nontrivial = true;
        st.label("narrow-type-lcm-fits-product-does-not");
    }
    Ok(st)
}

fn chinese_with(a1: i64, m1: i64, a2: i64, m2: i64, result: Option<i64>) -> CaseResult {
    let mut st = CaseStats::default();
    let g = bgcd(m1 as u128, m2 as u128) as i128;
    let l = m1 as i128 / g * m2 as i128;
    let compatible = (a2 as i128 - a1 as i128) % g == 0;
    match result {
        Some(x) => {
            vensure!(compatible, "crt/spurious-solution", "crt({}, {}, {}, {}) = Some({}) although the congruences are incompatible (gcd {})", a1, m1, a2, m2, x, g);
            let xi = x as i128;
            vensure!(0 <= xi && xi < l, "crt/range", "crt({}, {}, {}, {}) = {} is not in [0, lcm = {})", a1, m1, a2, m2, x, l);
            vensure!(
                xi.rem_euclid(m1 as i128) == a1 as i128 && xi.rem_euclid(m2 as i128) == a2 as i128,
                "crt/wrong-solution",
                "crt({}, {}, {}, {}) = {} which is {} mod m1 and {} mod m2",
                a1, m1, a2, m2, x, xi.rem_euclid(m1 as i128), xi.rem_euclid(m2 as i128)
            );
        }
        None => vensure!(!compatible, "crt/missed-solution", "crt({}, {}, {}, {}) = None although gcd {} divides a2-a1", a1, m1, a2, m2, g),
    }
    if g > 1 {
        st.nontrivial = true;
        st.label("non-coprime-moduli");
    }
    if !compatible {
        st.label("incompatible");
    }
    Ok(st)
}

macro_rules! typed_signed {
    ($t:ty, $a:expr, $b:expr, $st:expr) => {{
        let (a, b) = ($a as $t, $b as $t);
        if a != <$t>::MIN && b != <$t>::MIN && (a != 0 || b != 0) {
            let g = bgcd((a as i128).unsigned_abs(), (b as i128).unsigned_abs());
            let got = gcd(a, b);
            vensure!(got as i128 >= 0 && got as i128 as u128 == g, "gcd/typed", "gcd::<{}>({}, {}) = {}, expected {}", stringify!($t), a, b, got, g);
            let l = ((a as i128).unsigned_abs() / g).checked_mul((b as i128).unsigned_abs()).unwrap_or(u128::MAX);
            if l <= <$t>::MAX as u128 {
                let got = lcm(a, b);
                vensure!(got as i128 >= 0 && got as i128 as u128 == l, "lcm/typed", "lcm::<{}>({}, {}) = {}, expected {}", stringify!($t), a, b, got, l);
            } else {
                $st.label("lcm-does-not-fit-skipped");
            }
            if a < 0 || b < 0 || a == 0 || b == 0 {
                $st.nontrivial = true;
            }
        }
    }};
}

macro_rules! typed_unsigned {
    ($t:ty, $a:expr, $b:expr, $st:expr) => {{
        let (a, b) = ($a as $t, $b as $t);
        if a != 0 || b != 0 {
            let g = bgcd(a as u128, b as u128);
            let got = gcd(a, b);
            vensure!(got as u128 == g, "gcd/typed", "gcd::<{}>({}, {}) = {}, expected {}", stringify!($t), a, b, got, g);
            // lcm fits iff (a/g)*b fits
            if let Some(l) = (a as u128 / g).checked_mul(b as u128) {
                if l <= <$t>::MAX as u128 {
                    let got = lcm(a, b);
                    vensure!(got as u128 == l, "lcm/typed", "lcm::<{}>({}, {}) = {}, expected {}", stringify!($t), a, b, got, l);
                }
            }
            if a == 0 || b == 0 {
                $st.nontrivial = true;
            }
        }
    }};
}

fn typed(ty: u8, a: i128, b: i128) -> CaseResult {
    let mut st = CaseStats::default();
    match ty % 12 {
        0 => typed_signed!(i8, a, b, st),
        1 => typed_signed!(i16, a, b, st),
        2 => typed_signed!(i32, a, b, st),
        3 => typed_signed!(i64, a, b, st),
        4 => typed_signed!(i128, a, b, st),
        5 => typed_signed!(isize, a, b, st),
        6 => typed_unsigned!(u8, a, b, st),
        7 => typed_unsigned!(u16, a, b, st),
        8 => typed_unsigned!(u32, a, b, st),
        9 => typed_unsigned!(u64, a, b, st),
        10 => typed_unsigned!(u128, a, b, st),
        _ => typed_unsigned!(usize, a, b, st),
    }
    vensure!(gcd(0i64, 0i64) == 0, "gcd/zero-zero", "gcd(0,0) = {}", gcd(0i64, 0i64));
    Ok(st)
}

fn run_case(c: &Case) -> CaseResult {
    match c {
        Case::Lin { a, b, c } => {
            if *a == 0 && *b == 0 {
                return Ok(CaseStats::default());
            }
            lin(*a, *b, *c)
        }
        Case::Crt { a1, m1, a2, m2 } => {
            if *m1 < 1 || *m2 < 1 || *a1 < 0 || *a2 < 0 || a1 >= m1 || a2 >= m2 {
                return Ok(CaseStats::default());
            }
            chinese(*a1, *m1, *a2, *m2)
        }
        Case::Typed { ty, a, b } => typed(*ty, *a, *b),
        Case::CrtNarrow { ty, a1, m1, a2, m2 } => chinese_narrow(*ty, *a1, *m1, *a2, *m2),
    }
}

fn mag() -> BoxedStrategy<i64> {
    let b = 1i64 << 20;
    prop_oneof![2 => -20i64..=20, 2 => -b..=b, 1 => prop::sample::select(vec![0, 1, -1, b, -b, b - 1, 1 - b, 1 << 19, 3 << 18])].boxed()
}

fn lin_case() -> impl Strategy<Value = Case> {
    let plain = (mag(), mag(), mag()).prop_map(|(a, b, c)| Case::Lin { a, b, c });
    // common factors; c = k*g and k*g +- 1
    let fact = (1i64..=1024, -1024i64..=1024, -1024i64..=1024, -1024i64..=1024, -1i64..=1).prop_map(|(g, p, q, k, d)| Case::Lin { a: g * p, b: g * q, c: (k * g + d).clamp(-(1 << 20), 1 << 20) });
    prop_oneof![plain, fact]
}

fn crt_case() -> impl Strategy<Value = Case> {
    let m = || prop_oneof![1i64..=64, 1i64..=(1 << 20), Just(1i64 << 20), Just((1i64 << 20) - 1)];
    let plain = (m(), m(), any::<u32>(), any::<u32>()).prop_map(|(m1, m2, r1, r2)| Case::Crt { a1: r1 as i64 % m1, m1, a2: r2 as i64 % m2, m2 });
    // shared factors, and solutions adjacent to the lcm: pick x then reduce
    let shared = (1i64..=1024, 1i64..=1024, 1i64..=1024, any::<u64>(), 0i64..3).prop_map(|(g, p, q, x, near)| {
        let (m1, m2) = (g * p, g * q);
        let l = m1 / bg(m1, m2) * m2;
        let x = if near > 0 { l - near.min(l) } else { (x % l as u64) as i64 };
        Case::Crt { a1: x % m1, m1, a2: x % m2, m2 }
    });
    let incompatible = (2i64..=1024, 1i64..=512, 1i64..=512, any::<u32>(), any::<u32>()).prop_map(|(g, p, q, r1, r2)| {
        let (m1, m2) = (g * p, g * q);
        Case::Crt { a1: r1 as i64 % m1, m1, a2: r2 as i64 % m2, m2 }
    });
    prop_oneof![plain, shared, incompatible]
}

fn bg(a: i64, b: i64) -> i64 {
    bgcd(a as u128, b as u128) as i64
}

fn typed_case() -> impl Strategy<Value = Case> {
    (0u8..12, any::<i128>(), any::<i128>(), 0u32..128, 0u32..128, 0u8..6, 1i128..1000).prop_map(|(ty, a, b, sa, sb, mode, k)| {
        // shrink magnitudes by random shifts so that small and common-factor pairs are frequent
        let (a, b) = (a >> sa, b >> sb);
        match mode {
            0 => Case::Typed { ty, a: 0, b },
            1 => Case::Typed { ty, a, b: 0 },
            2 => Case::Typed { ty, a: a.wrapping_mul(k), b: k },
            3 => Case::Typed { ty, a: (a >> 64).wrapping_mul(k), b: (b >> 64).wrapping_mul(k) },
            _ => Case::Typed { ty, a, b },
        }
    })
}

fn main() {
    let mut ctx = Ctx::init("C11");
    ctx.rule(
        "Cases: (a,b,c) for gcd/lcm/egcd over i64 - exhaustively the cube [-12,12]^3 (quick) / [-30,30]^3 (thorough) minus a=b=0, then \
         generated |.|<=2^20 with bias to zeros, +-1, common factors, c = k*g and k*g+-1; (a1,m1,a2,m2) for crt - exhaustively all moduli \
         1..=40 (quick) / 1..=120 (thorough) with all reduced residues, then generated moduli <= 2^20 with shared factors, solutions \
         adjacent to the lcm, incompatible pairs, neighbouring Fibonacci / Lucas-type numbers (Euclid's worst case) as coefficients and moduli, crt over i16 / i32 where the combined modulus fits but m1*m2 does not; gcd/lcm on all 12 integer types with shifted random magnitudes (signed MIN excluded, \
         lcm only where it fits). Oracle: independent binary gcd (cross-checked against the definition on the small cube); gcd >= 0; \
         lcm*gcd = |a*b|, lcm >= 0; egcd is Some((x,y)) iff gcd | c and then a*x+b*y = c exactly in i128; crt is Some(x) iff gcd(m1,m2) | \
         a2-a1 and then 0 <= x < lcm, x = a1 (mod m1), x = a2 (mod m2). Non-trivial = a zero or negative operand, or non-coprime moduli. \
         Distinct = distinct (sub-check, case).",
    );
    ctx.assume("lcm(0,0) and egcd(0,0,c) are outside the stated domain and not generated");
    ctx.replayer("gcd-case", |v| run_case(&serde_json::from_value::<Case>(v.clone()).expect("case")));
    ctx.begin();
    let r = ctx.n(12, 30) as i64;
    let cube = (-r..=r).flat_map(move |a| (-r..=r).flat_map(move |b| (-r..=r).map(move |c| Case::Lin { a, b, c }))).filter(|c| !matches!(c, Case::Lin { a: 0, b: 0, .. }));
    ctx.exhaustive("cube", "gcd-case", &format!("all (a,b,c) in [-{r},{r}]^3 with (a,b) != (0,0)"), true, cube, run_case);
    let mm = ctx.n(40, 120) as i64;
    let all_crt = (1..=mm).flat_map(move |m1| (1..=mm).flat_map(move |m2| (0..m1).flat_map(move |a1| (0..m2).map(move |a2| Case::Crt { a1, m1, a2, m2 }))));
    ctx.exhaustive("crt-small-moduli", "gcd-case", &format!("all moduli 1..={mm} with all reduced residues"), true, all_crt, run_case);
    ctx.prop_split("egcd-generated", "gcd-case", ctx.n(50_000, 12_000_000), ctx.parts(), lin_case().boxed(), run_case);
    ctx.prop_split("crt-generated", "gcd-case", ctx.n(50_000, 12_000_000), ctx.parts(), crt_case().boxed(), run_case);
    // Euclid's worst case: neighbouring Fibonacci / Lucas numbers (the maximal number of division steps for their size), plain,
    // with a common factor, with either sign, as egcd coefficients and as crt moduli
    {
        let mut seqs: Vec<Vec<i64>> = Vec::new();
        for (x0, x1) in [(1i64, 1i64), (2, 1), (1, 4), (3, 10)] {
            let mut v = vec![x0, x1];
            while v[v.len() - 1] + v[v.len() - 2] <= 1 << 20 {
                let z = v[v.len() - 1] + v[v.len() - 2];
                v.push(z);
            }
            seqs.push(v);
        }
        let mut worst = Vec::new();
        for v in &seqs {
            for w in v.windows(3) {
                for (p, q) in [(w[1], w[2]), (w[2], w[1]), (w[0], w[2])] {
                    for g in [1i64, 2, 3, 7, 1 << 20] {
                        let g = g.min((1 << 20) / p.max(q));
                        if g < 1 {
                            continue;
                        }
                        for (sa, sb) in [(1i64, 1i64), (-1, 1), (1, -1), (-1, -1)] {
                            for c in [1i64, g, -g, 5 * g, g + 1, 0, (1 << 20) / g * g] {
                                worst.push(Case::Lin { a: sa * g * p, b: sb * g * q, c });
                            }
                        }
                        for r in [0i64, 1, 12345] {
                            let (m1, m2) = (g * p, g * q);
                            let l = m1 / bg(m1, m2) * m2;
                            let x = (r * 7919 + l - 1 - r) % l;
                            worst.push(Case::Crt { a1: x % m1, m1, a2: x % m2, m2 });
                            worst.push(Case::Crt { a1: (x + 1) % m1, m1, a2: x % m2, m2 });
                        }
                    }
                }
            }
        }
        ctx.exhaustive("euclid-worst-cases", "gcd-case", "neighbouring Fibonacci / Lucas-type numbers up to 2^20 as egcd coefficients and crt moduli (plain, with a common factor, all sign patterns)", false, worst, run_case);
    }
    // narrow signed types: the combined modulus fits although m1*m2 does not
    {
        let narrow = (0u8..2, 1i64..=64, 1i64..=64, any::<u32>(), any::<bool>(), any::<u32>()).prop_map(|(ty, p, q, gsel, compatible, xr)| {
            let max: i64 = if ty == 0 { i16::MAX as i64 } else { i32::MAX as i64 };
            // g as large as the lcm g*p*q allows (or a random smaller one)
            let gmax = (max / (p * q)).max(1);
            let g = if gsel % 3 == 0 { gmax } else { 1 + gsel as i64 % gmax };
            let (m1, m2) = (g * p, g * q);
            let l = m1 / bg(m1, m2) * m2;
            let x = xr as i64 % l;
            let a2 = if compatible { x % m2 } else { (x + 1) % m2 };
            Case::CrtNarrow { ty, a1: x % m1, m1, a2, m2 }
        });
        ctx.prop("crt-narrow-types", "gcd-case", ctx.n(30_000, 3_000_000), narrow, run_case);
    }
    ctx.prop("gcd-lcm-all-integer-types", "gcd-case", ctx.n(60_000, 8_000_000), typed_case(), run_case);
    ctx.finish();
}
