//! Item algebras the generic segment tree is instantiated with: the built-in items, nested pair
//! combinators, and harness items whose merge is *free* (aggregate = the literal element list) or
//! non-commutative with non-commuting modifiers.

use rlib_segtree::segtree_items::{Combinator, Max, MaxAdd, Min, MinAdd, Sum, SumAdd};
use rlib_segtree::SegtreeItem;
use std::fmt::Debug;

pub const P: u64 = 65521;

/// Predicate over observations, built from a family selector and a raw threshold; the interpreter
/// verifies monotonicity on the model before using it.
pub type Pred<O> = Box<dyn Fn(&O) -> bool>;

pub trait Alg: 'static {
    const NAME: &'static str;
    const COMMUTATIVE: bool;
    type M: Debug;
    type Item: SegtreeItem<Self::M> + Clone + Default + Debug;
    type E: Clone + Debug + PartialEq;
    type O: PartialEq + Debug + Clone;
    fn elem(raw: u32, nonneg: bool) -> Self::E;
    fn item(e: &Self::E) -> Self::Item;
    fn modifier(raw: u32, nonneg: bool) -> Self::M;
    fn apply(e: &mut Self::E, m: &Self::M);
    /// in-order fold of a non-empty slice
    fn fold(es: &[Self::E]) -> Self::O;
    fn obs(it: &Self::Item) -> Self::O;
    /// `folds` = the model's aggregates of the growing ranges the search may inspect (so thresholds can
    /// be placed exactly at, just below and just above every flip position)
    fn pred(family: u8, t: u32, folds: &[Self::O]) -> Pred<Self::O>;
}

fn val(raw: u32, nonneg: bool) -> i64 {
    let v = if raw < 16 { raw as i64 - 8 } else { (raw as i32 as i64) * 257 };
    if nonneg {
        v.abs()
    } else {
        v
    }
}

/// threshold for an ordered observation: a model fold ± {−1,0,+1}
fn thr(t: u32, folds: &[i64]) -> i64 {
    if folds.is_empty() {
        return 0;
    }
    let k = ((t >> 2) as usize) % folds.len();
    folds[k].saturating_add(match t & 3 {
        0 => -1,
        1 => 0,
        2 => 1,
        _ => 0,
    })
}

macro_rules! plain_alg {
    ($name:ident, $label:literal, $item:ident, $fold:expr, $pred:expr) => {
        pub struct $name;
        impl Alg for $name {
            const NAME: &'static str = $label;
            const COMMUTATIVE: bool = true;
            type M = ();
            type Item = $item<i64>;
            type E = i64;
            type O = i64;
            fn elem(raw: u32, nonneg: bool) -> i64 {
                val(raw, nonneg)
            }
            fn item(e: &i64) -> Self::Item {
                // both public constructors
                if *e % 2 == 0 {
                    $item::new(*e)
                } else {
                    $item::from(*e)
                }
            }
            fn modifier(_: u32, _: bool) {}
            fn apply(_: &mut i64, _: &()) {}
            fn fold(es: &[i64]) -> i64 {
                let f: fn(i64, i64) -> i64 = $fold;
                es[1..].iter().fold(es[0], |a, &b| f(a, b))
            }
            fn obs(it: &Self::Item) -> i64 {
                it.v
            }
            fn pred(family: u8, t: u32, folds: &[i64]) -> Pred<i64> {
                let th = thr(t, folds);
                let p: fn(i64, i64) -> bool = $pred;
                match family % 4 {
                    0 => Box::new(|_| true),
                    1 => Box::new(|_| false),
                    _ => Box::new(move |o| p(*o, th)),
                }
            }
        }
    };
}

plain_alg!(AMin, "Min", Min, |a, b| a.min(b), |o, t| o <= t);
plain_alg!(AMax, "Max", Max, |a, b| a.max(b), |o, t| o >= t);
plain_alg!(ASum, "Sum", Sum, |a, b| a + b, |o, t| o >= t);

/// Plain min / max items over other element domains: i64 including the extreme values of the type (a sentinel MIN / MAX element is
/// lawful for an item without modifiers), and f64 (whole numbers, so the i64 model is exact).
macro_rules! plain_alg_t {
    ($name:ident, $label:literal, $item:ident, $t:ty, $elem:expr, $to:expr, $from:expr, $fold:expr, $pred:expr) => {
        pub struct $name;
        impl Alg for $name {
            const NAME: &'static str = $label;
            const COMMUTATIVE: bool = true;
            type M = ();
            type Item = $item<$t>;
            type E = i64;
            type O = i64;
            fn elem(raw: u32, nonneg: bool) -> i64 {
                let f: fn(u32, bool) -> i64 = $elem;
                f(raw, nonneg)
            }
            fn item(e: &i64) -> Self::Item {
                let to: fn(i64) -> $t = $to;
                if *e % 2 == 0 {
                    $item::new(to(*e))
                } else {
                    $item::from(to(*e))
                }
            }
            fn modifier(_: u32, _: bool) {}
            fn apply(_: &mut i64, _: &()) {}
            fn fold(es: &[i64]) -> i64 {
                let f: fn(i64, i64) -> i64 = $fold;
                es[1..].iter().fold(es[0], |a, &b| f(a, b))
            }
            fn obs(it: &Self::Item) -> i64 {
                let from: fn($t) -> i64 = $from;
                from(it.v)
            }
            fn pred(family: u8, t: u32, folds: &[i64]) -> Pred<i64> {
                let th = thr(t, folds);
                let p: fn(i64, i64) -> bool = $pred;
                match family % 4 {
                    0 => Box::new(|_| true),
                    1 => Box::new(|_| false),
                    _ => Box::new(move |o| p(*o, th)),
                }
            }
        }
    };
}

fn extreme_val(raw: u32, nonneg: bool) -> i64 {
    match raw % 8 {
        0 => i64::MIN,
        1 => i64::MAX,
        2 => i64::MIN + 1,
        3 => i64::MAX - 1,
        _ => val(raw, nonneg),
    }
}

plain_alg_t!(AMinExt, "Min(i64, extreme values)", Min, i64, extreme_val, |x| x, |x| x, |a, b| a.min(b), |o, t| o <= t);
plain_alg_t!(AMaxExt, "Max(i64, extreme values)", Max, i64, extreme_val, |x| x, |x| x, |a, b| a.max(b), |o, t| o >= t);
plain_alg_t!(AMinF, "Min(f64)", Min, f64, val, |x| x as f64, |x| x as i64, |a, b| a.min(b), |o, t| o <= t);
plain_alg_t!(AMaxF, "Max(f64)", Max, f64, val, |x| x as f64, |x| x as i64, |a, b| a.max(b), |o, t| o >= t);

macro_rules! add_alg {
    ($name:ident, $label:literal, $item:ident, $fold:expr, $pred:expr) => {
        pub struct $name;
        impl Alg for $name {
            const NAME: &'static str = $label;
            const COMMUTATIVE: bool = true;
            type M = i64;
            type Item = $item<i64>;
            type E = i64;
            type O = i64;
            fn elem(raw: u32, nonneg: bool) -> i64 {
                val(raw, nonneg)
            }
            fn item(e: &i64) -> Self::Item {
                // both public constructors
                if *e % 2 == 0 {
                    $item::new(*e)
                } else {
                    $item::from(*e)
                }
            }
            fn modifier(raw: u32, nonneg: bool) -> i64 {
                val(raw, nonneg)
            }
            fn apply(e: &mut i64, m: &i64) {
                *e += *m;
            }
            fn fold(es: &[i64]) -> i64 {
                let f: fn(i64, i64) -> i64 = $fold;
                es[1..].iter().fold(es[0], |a, &b| f(a, b))
            }
            fn obs(it: &Self::Item) -> i64 {
                it.v
            }
            fn pred(family: u8, t: u32, folds: &[i64]) -> Pred<i64> {
                let th = thr(t, folds);
                let p: fn(i64, i64) -> bool = $pred;
                match family % 4 {
                    0 => Box::new(|_| true),
                    1 => Box::new(|_| false),
                    _ => Box::new(move |o| p(*o, th)),
                }
            }
        }
    };
}

add_alg!(AMinAdd, "MinAdd", MinAdd, |a, b| a.min(b), |o, t| o <= t);
add_alg!(AMaxAdd, "MaxAdd", MaxAdd, |a, b| a.max(b), |o, t| o >= t);

/// SumAdd observes (sum, len): `len` is part of the public item and drives `modify`.
pub struct ASumAdd;
impl Alg for ASumAdd {
    const NAME: &'static str = "SumAdd";
    const COMMUTATIVE: bool = true;
    type M = i64;
    type Item = SumAdd<i64>;
    type E = i64;
    type O = (i64, i64);
    fn elem(raw: u32, nonneg: bool) -> i64 {
        val(raw, nonneg)
    }
    fn item(e: &i64) -> Self::Item {
        if *e % 2 == 0 {
            SumAdd::new(*e)
        } else {
            SumAdd::from(*e)
        }
    }
    fn modifier(raw: u32, nonneg: bool) -> i64 {
        val(raw, nonneg)
    }
    fn apply(e: &mut i64, m: &i64) {
        *e += *m;
    }
    fn fold(es: &[i64]) -> (i64, i64) {
        (es.iter().sum(), es.len() as i64)
    }
    fn obs(it: &Self::Item) -> (i64, i64) {
        (it.v, it.len)
    }
    fn pred(family: u8, t: u32, folds: &[(i64, i64)]) -> Pred<(i64, i64)> {
        let sums: Vec<i64> = folds.iter().map(|f| f.0).collect();
        let th = thr(t, &sums);
        let k = if folds.is_empty() { 1 } else { 1 + (t as i64 >> 2) % (folds.len() as i64 + 1) };
        match family % 5 {
            0 => Box::new(|_| true),
            1 => Box::new(|_| false),
            2 => Box::new(move |o| o.1 >= k),
            _ => Box::new(move |o| o.0 >= th),
        }
    }
}

/// Pair combinator: the same raw element / modifier feeds both components.
pub struct AComb<A, B>(std::marker::PhantomData<(A, B)>);
impl<A: Alg, B: Alg<M = A::M>> Alg for AComb<A, B> {
    const NAME: &'static str = "Combinator";
    const COMMUTATIVE: bool = A::COMMUTATIVE && B::COMMUTATIVE;
    type M = A::M;
    type Item = Combinator<A::Item, B::Item>;
    type E = (A::E, B::E);
    type O = (A::O, B::O);
    fn elem(raw: u32, nonneg: bool) -> Self::E {
        (A::elem(raw, nonneg), B::elem(raw, nonneg))
    }
    fn item(e: &Self::E) -> Self::Item {
        Combinator(A::item(&e.0), B::item(&e.1))
    }
    fn modifier(raw: u32, nonneg: bool) -> Self::M {
        A::modifier(raw, nonneg)
    }
    fn apply(e: &mut Self::E, m: &Self::M) {
        A::apply(&mut e.0, m);
        B::apply(&mut e.1, m);
    }
    fn fold(es: &[Self::E]) -> Self::O {
        let a: Vec<A::E> = es.iter().map(|e| e.0.clone()).collect();
        let b: Vec<B::E> = es.iter().map(|e| e.1.clone()).collect();
        (A::fold(&a), B::fold(&b))
    }
    fn obs(it: &Self::Item) -> Self::O {
        (A::obs(&it.0), B::obs(&it.1))
    }
    fn pred(family: u8, t: u32, folds: &[Self::O]) -> Pred<Self::O> {
        if family & 0x80 == 0 {
            let fa: Vec<A::O> = folds.iter().map(|f| f.0.clone()).collect();
            let p = A::pred(family, t, &fa);
            Box::new(move |o| p(&o.0))
        } else {
            let fb: Vec<B::O> = folds.iter().map(|f| f.1.clone()).collect();
            let p = B::pred(family & 0x7f, t, &fb);
            Box::new(move |o| p(&o.1))
        }
    }
}

// ---------------------------------------------------------------------------------------------
// Harness items
// ---------------------------------------------------------------------------------------------

/// Free monoid: the aggregate of a range is the literal list of its elements. Modifier x ↦ a·x+b mod P
/// (a = 0 is "assign"); pending modifiers are composed and do not commute.
#[derive(Clone, Debug, Default, PartialEq)]
pub struct FreeItem {
    pub vals: Vec<u32>,
    pub md: Option<(u32, u32)>,
}

fn aff(m: &(u32, u32), x: u32) -> u32 {
    ((m.0 as u64 * x as u64 + m.1 as u64) % P) as u32
}

/// `first` then `then`
fn compose(first: &(u32, u32), then: &(u32, u32)) -> (u32, u32) {
    (
        ((then.0 as u64 * first.0 as u64) % P) as u32,
        ((then.0 as u64 * first.1 as u64 + then.1 as u64) % P) as u32,
    )
}

impl SegtreeItem<(u32, u32)> for FreeItem {
    fn merge(l: &Self, r: &Self) -> Self {
        let mut vals = l.vals.clone();
        vals.extend_from_slice(&r.vals);
        Self { vals, md: None }
    }
    fn modify(&mut self, m: &(u32, u32)) {
        for v in self.vals.iter_mut() {
            *v = aff(m, *v);
        }
        self.md = Some(match &self.md {
            None => *m,
            Some(old) => compose(old, m),
        });
    }
    fn push(&mut self, l: &mut Self, r: &mut Self) {
        if let Some(m) = self.md.take() {
            l.modify(&m);
            r.modify(&m);
        }
    }
}

fn affine_mod(raw: u32) -> (u32, u32) {
    // a ∈ {0 (assign), 1 (add), 2, 3, …}, biased to the interesting small multipliers
    let a = match raw & 7 {
        0 | 1 => 0,
        2 | 3 => 1,
        4 => 2,
        5 => (P - 1) as u32,
        _ => (raw >> 3) % P as u32,
    };
    (a, (raw >> 8) % P as u32)
}

pub struct AFree;
impl Alg for AFree {
    const NAME: &'static str = "FreeAffine";
    const COMMUTATIVE: bool = false;
    type M = (u32, u32);
    type Item = FreeItem;
    type E = u32;
    type O = Vec<u32>;
    fn elem(raw: u32, _: bool) -> u32 {
        raw % P as u32
    }
    fn item(e: &u32) -> FreeItem {
        FreeItem { vals: vec![*e], md: None }
    }
    fn modifier(raw: u32, _: bool) -> (u32, u32) {
        affine_mod(raw)
    }
    fn apply(e: &mut u32, m: &(u32, u32)) {
        *e = aff(m, *e);
    }
    fn fold(es: &[u32]) -> Vec<u32> {
        es.to_vec()
    }
    fn obs(it: &FreeItem) -> Vec<u32> {
        it.vals.clone()
    }
    fn pred(family: u8, t: u32, folds: &[Vec<u32>]) -> Pred<Vec<u32>> {
        let k = if folds.is_empty() { 1 } else { 1 + (t as usize >> 2) % (folds.len() + 1) };
        // an element value that occurs in the widest range (or a value that occurs nowhere)
        let c = match folds.last() {
            Some(w) if !w.is_empty() && t & 1 == 0 => w[(t as usize >> 1) % w.len()],
            _ => P as u32 + 7,
        };
        match family % 4 {
            0 => Box::new(|_| true),
            1 => Box::new(|_| false),
            2 => Box::new(move |o| o.len() >= k),
            _ => Box::new(move |o| o.contains(&c)),
        }
    }
}

/// Polynomial hash of the sequence (non-commutative merge, O(1) size) under affine element maps.
#[derive(Clone, Debug, PartialEq)]
pub struct HashItem {
    pub h: u64,
    pub len: u64,
    pub pw: u64,
    pub geo: u64,
    pub md: Option<(u32, u32)>,
}
const HP: u64 = (1 << 31) - 1;
const HB: u64 = 1_000_003;

impl Default for HashItem {
    fn default() -> Self {
        Self { h: 0, len: 0, pw: 1, geo: 0, md: None }
    }
}

impl HashItem {
    pub fn leaf(x: u32) -> Self {
        Self { h: x as u64, len: 1, pw: HB, geo: 1, md: None }
    }
}

impl SegtreeItem<(u32, u32)> for HashItem {
    fn merge(l: &Self, r: &Self) -> Self {
        Self {
            h: (l.h * r.pw + r.h) % HP,
            len: l.len + r.len,
            pw: l.pw * r.pw % HP,
            geo: (l.geo * r.pw + r.geo) % HP,
            md: None,
        }
    }
    fn modify(&mut self, m: &(u32, u32)) {
        // elements live mod P but the hash is mod HP: keep element arithmetic exact by restricting the
        // harness modifiers of this item to a·x+b without reduction wrap (see AHash::modifier)
        self.h = (m.0 as u64 * self.h + m.1 as u64 * self.geo) % HP;
        self.md = Some(match &self.md {
            None => *m,
            Some(old) => (
                ((m.0 as u64 * old.0 as u64) % HP) as u32,
                ((m.0 as u64 * old.1 as u64 + m.1 as u64) % HP) as u32,
            ),
        });
    }
    fn push(&mut self, l: &mut Self, r: &mut Self) {
        if let Some(m) = self.md.take() {
            l.modify(&m);
            r.modify(&m);
        }
    }
}

pub struct AHash;
impl Alg for AHash {
    const NAME: &'static str = "HashAffine";
    const COMMUTATIVE: bool = false;
    type M = (u32, u32);
    type Item = HashItem;
    /// elements are residues mod HP
    type E = u64;
    type O = (u64, u64);
    fn elem(raw: u32, _: bool) -> u64 {
        raw as u64 % HP
    }
    fn item(e: &u64) -> HashItem {
        HashItem::leaf(*e as u32)
    }
    fn modifier(raw: u32, _: bool) -> (u32, u32) {
        let a = match raw & 7 {
            0 | 1 => 0,
            2 | 3 => 1,
            4 => 2,
            _ => ((raw >> 3) as u64 % HP) as u32,
        };
        (a, ((raw >> 5) as u64 % HP) as u32)
    }
    fn apply(e: &mut u64, m: &(u32, u32)) {
        *e = (m.0 as u64 * *e + m.1 as u64) % HP;
    }
    fn fold(es: &[u64]) -> (u64, u64) {
        let mut h = 0u64;
        for &e in es {
            h = (h * HB + e) % HP;
        }
        (h, es.len() as u64)
    }
    fn obs(it: &HashItem) -> (u64, u64) {
        (it.h, it.len)
    }
    fn pred(family: u8, t: u32, folds: &[(u64, u64)]) -> Pred<(u64, u64)> {
        let k = if folds.is_empty() { 1 } else { 1 + (t as u64 >> 2) % (folds.len() as u64 + 1) };
        match family % 3 {
            0 => Box::new(|_| true),
            1 => Box::new(|_| false),
            _ => Box::new(move |o| o.1 >= k),
        }
    }
}

/// The classic non-commuting pair: range assign and range add, over sum (with length) or min.
#[derive(Clone, Copy, Debug, PartialEq)]
pub enum AA {
    Assign(i64),
    Add(i64),
}

fn aa_compose(first: Option<AA>, then: AA) -> AA {
    match (first, then) {
        (_, AA::Assign(v)) => AA::Assign(v),
        (None, AA::Add(a)) => AA::Add(a),
        (Some(AA::Assign(v)), AA::Add(a)) => AA::Assign(v + a),
        (Some(AA::Add(b)), AA::Add(a)) => AA::Add(a + b),
    }
}

fn aa_mod(raw: u32, nonneg: bool) -> AA {
    let v = val(raw >> 1, nonneg);
    if raw & 1 == 0 {
        AA::Assign(v)
    } else {
        AA::Add(v)
    }
}

#[derive(Clone, Debug, Default, PartialEq)]
pub struct AASum {
    pub v: i64,
    pub len: i64,
    pub md: Option<AA>,
}
impl SegtreeItem<AA> for AASum {
    fn merge(l: &Self, r: &Self) -> Self {
        Self { v: l.v + r.v, len: l.len + r.len, md: None }
    }
    fn modify(&mut self, m: &AA) {
        match m {
            AA::Assign(x) => self.v = x * self.len,
            AA::Add(x) => self.v += x * self.len,
        }
        self.md = Some(aa_compose(self.md, *m));
    }
    fn push(&mut self, l: &mut Self, r: &mut Self) {
        if let Some(m) = self.md.take() {
            l.modify(&m);
            r.modify(&m);
        }
    }
}

pub struct AAssignSum;
impl Alg for AAssignSum {
    const NAME: &'static str = "AssignAddSum";
    const COMMUTATIVE: bool = false;
    type M = AA;
    type Item = AASum;
    type E = i64;
    type O = (i64, i64);
    fn elem(raw: u32, nonneg: bool) -> i64 {
        val(raw, nonneg)
    }
    fn item(e: &i64) -> AASum {
        AASum { v: *e, len: 1, md: None }
    }
    fn modifier(raw: u32, nonneg: bool) -> AA {
        aa_mod(raw, nonneg)
    }
    fn apply(e: &mut i64, m: &AA) {
        match m {
            AA::Assign(x) => *e = *x,
            AA::Add(x) => *e += *x,
        }
    }
    fn fold(es: &[i64]) -> (i64, i64) {
        (es.iter().sum(), es.len() as i64)
    }
    fn obs(it: &AASum) -> (i64, i64) {
        (it.v, it.len)
    }
    fn pred(family: u8, t: u32, folds: &[(i64, i64)]) -> Pred<(i64, i64)> {
        ASumAdd::pred(family, t, folds)
    }
}

#[derive(Clone, Debug, PartialEq)]
pub struct AAMin {
    pub v: i64,
    pub md: Option<AA>,
}
impl Default for AAMin {
    fn default() -> Self {
        Self { v: i64::MAX, md: None }
    }
}
impl SegtreeItem<AA> for AAMin {
    fn merge(l: &Self, r: &Self) -> Self {
        Self { v: l.v.min(r.v), md: None }
    }
    fn modify(&mut self, m: &AA) {
        match m {
            AA::Assign(x) => self.v = *x,
            AA::Add(x) => self.v += *x,
        }
        self.md = Some(aa_compose(self.md, *m));
    }
    fn push(&mut self, l: &mut Self, r: &mut Self) {
        if let Some(m) = self.md.take() {
            l.modify(&m);
            r.modify(&m);
        }
    }
}

pub struct AAssignMin;
impl Alg for AAssignMin {
    const NAME: &'static str = "AssignAddMin";
    const COMMUTATIVE: bool = false;
    type M = AA;
    type Item = AAMin;
    type E = i64;
    type O = i64;
    fn elem(raw: u32, nonneg: bool) -> i64 {
        val(raw, nonneg)
    }
    fn item(e: &i64) -> AAMin {
        AAMin { v: *e, md: None }
    }
    fn modifier(raw: u32, nonneg: bool) -> AA {
        aa_mod(raw, nonneg)
    }
    fn apply(e: &mut i64, m: &AA) {
        AAssignSum::apply(e, m)
    }
    fn fold(es: &[i64]) -> i64 {
        *es.iter().min().unwrap()
    }
    fn obs(it: &AAMin) -> i64 {
        it.v
    }
    fn pred(family: u8, t: u32, folds: &[i64]) -> Pred<i64> {
        AMinAdd::pred(family, t, folds)
    }
}

/// A lazy item whose modifier type is zero-sized: range flip over a 0/1 array, aggregate = (number of ones, length).
#[derive(Clone, Copy, Debug, PartialEq)]
pub struct Flip;

#[derive(Clone, Debug, PartialEq)]
pub struct FlipItem {
    pub ones: i64,
    pub len: i64,
    /// a flip is owed to the children
    pub pending: bool,
}
impl Default for FlipItem {
    fn default() -> Self {
        Self { ones: 0, len: 0, pending: false }
    }
}
impl SegtreeItem<Flip> for FlipItem {
    fn merge(l: &Self, r: &Self) -> Self {
        Self { ones: l.ones + r.ones, len: l.len + r.len, pending: false }
    }
    fn modify(&mut self, _: &Flip) {
        self.ones = self.len - self.ones;
        self.pending = !self.pending;
    }
    fn push(&mut self, l: &mut Self, r: &mut Self) {
        if self.pending {
            self.pending = false;
            l.modify(&Flip);
            r.modify(&Flip);
        }
    }
}

pub struct AFlip;
impl Alg for AFlip {
    const NAME: &'static str = "FlipCount(zero-sized modifier)";
    const COMMUTATIVE: bool = true;
    type M = Flip;
    type Item = FlipItem;
    type E = i64;
    type O = (i64, i64);
    fn elem(raw: u32, _nonneg: bool) -> i64 {
        (raw & 1) as i64
    }
    fn item(e: &i64) -> FlipItem {
        FlipItem { ones: *e, len: 1, pending: false }
    }
    fn modifier(_raw: u32, _nonneg: bool) -> Flip {
        Flip
    }
    fn apply(e: &mut i64, _: &Flip) {
        *e = 1 - *e;
    }
    fn fold(es: &[i64]) -> (i64, i64) {
        (es.iter().sum(), es.len() as i64)
    }
    fn obs(it: &FlipItem) -> (i64, i64) {
        (it.ones, it.len)
    }
    fn pred(family: u8, t: u32, folds: &[(i64, i64)]) -> Pred<(i64, i64)> {
        ASumAdd::pred(family, t, folds)
    }
}

pub type ACombMinMaxAdd = AComb<AMinAdd, AMaxAdd>;
pub type ACombSumMinMax = AComb<ASumAdd, AComb<AMinAdd, AMaxAdd>>;
pub type AComb4 = AComb<AComb<ASumAdd, AMinAdd>, AComb<AMaxAdd, ASumAdd>>;
pub type ACombMinMax = AComb<AMin, AMax>;

pub const ALG_NAMES: [&str; 19] = [
    "Min",
    "Max",
    "Sum",
    "MinAdd",
    "MaxAdd",
    "SumAdd",
    "Combinator<MinAdd,MaxAdd>",
    "Combinator<SumAdd,Combinator<MinAdd,MaxAdd>>",
    "Combinator<Combinator<SumAdd,MinAdd>,Combinator<MaxAdd,SumAdd>>",
    "Combinator<Min,Max>",
    "FreeAffine",
    "HashAffine",
    "AssignAddSum",
    "AssignAddMin",
    "FlipCount(zero-sized modifier)",
    "Min(i64, extreme values)",
    "Max(i64, extreme values)",
    "Min(f64)",
    "Max(f64)",
];
