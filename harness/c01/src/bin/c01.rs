use c01::algebra::*;
use c01::*;
use proptest::prelude::*;
use vcore::{CaseStats, Ctx};

#[derive(Clone, Debug, Hash, serde::Serialize, serde::Deserialize)]
struct LawCase {
    alg: u8,
    raws: Vec<u32>,
    m1: u32,
    m2: u32,
}

fn laws(c: &LawCase) -> vcore::CaseResult {
    match c.alg % 5 {
        4 => check_laws::<AFlip>(&c.raws, c.m1, c.m2)?,
        0 => check_laws::<AFree>(&c.raws, c.m1, c.m2)?,
        1 => check_laws::<AHash>(&c.raws, c.m1, c.m2)?,
        2 => check_laws::<AAssignSum>(&c.raws, c.m1, c.m2)?,
        _ => check_laws::<AAssignMin>(&c.raws, c.m1, c.m2)?,
    }
    Ok(CaseStats { nontrivial: false, labels: vec!["harness-item-law-check"], size: c.raws.len() as u64 })
}

fn main() {
    let mut ctx = Ctx::init("C01");
    ctx.rule(
        "Cases are operation histories (constructor, then set / range-modify / ask / lower_bound / lower_bound_rev / debug / rebuild) \
         on a Segtree instantiated with one of 19 item algebras (built-ins - Min / Max also over i64 with the type's extreme values as elements and over f64 -, nested Combinators, a flip/count item whose modifier type is zero-sized, and harness items with a free, \
         non-commutative merge and non-commuting modifiers), interpreted in lock-step with a plain Vec model; every ask must equal the \
         in-order fold of the model, and after the history every element and the whole range are compared. Sizes: 1..=130 biased to 2^k-1, 2^k, 2^k+1, plus a class of large trees (131..2^12 quick, ..2^15 thorough) with short histories, plus constructors fed with items handed out by the tree itself (ask(i,i) results). Non-trivial = a range modify \
         covering a strict sub-range (l>0 or r<n-1) is later observed by an ask or set overlapping it with no rebuild in between. \
         Distinct = distinct (sub-check, case) by SipHash of the case value.",
    );
    ctx.assume("harness item algebras satisfy the monoid-action laws (checked by sub-check harness-item-laws in every run)");
    ctx.assume("i64 values and modifiers are bounded by 2^40 so that no aggregate overflows i64 within 400 operations on 130 elements");
    ctx.replayer("segtree-history", |v| {
        let c: Case = serde_json::from_value(v.clone()).expect("replay case");
        run_case(&c, Focus::Fold)
    });
    ctx.begin();

    // the pair combinator's convenience impls: From<T> builds both components from the same value, Default is the
    // pair of identities
    {
        use rlib_segtree::segtree_items::{Combinator, MaxAdd, MinAdd, SumAdd};
        use rlib_segtree::SegtreeItem;
        type C2 = Combinator<MinAdd<i64>, MaxAdd<i64>>;
        type C3 = Combinator<SumAdd<i64>, C2>;
        let mut ok = true;
        let mut n = 0u64;
        for v in [-5i64, 0, 1, 7, 1 << 40, -(1 << 40)] {
            let c: C3 = Combinator::from(v);
            ok &= c.0.v == v && c.0.len == 1 && c.0.md == 0 && (c.1).0.v == v && (c.1).1.v == v && (c.1).0.md == 0 && (c.1).1.md == 0;
            // Default and merge of the pair = Default and merge of the components, side by side. (Whether a component's Default is
            // the identity of its merge is an assumption of C02's domain, not a clause of C01: not judged here.)
            let d = C3::default();
            let (d0, d10, d11) = (SumAdd::<i64>::default(), MinAdd::<i64>::default(), MaxAdd::<i64>::default());
            ok &= d.0.v == d0.v && d.0.len == d0.len && (d.1).0.v == d10.v && (d.1).1.v == d11.v;
            let m = C3::merge(&d, &c);
            let (e0, e10, e11) = (SumAdd::merge(&d0, &c.0), MinAdd::merge(&d10, &(c.1).0), MaxAdd::merge(&d11, &(c.1).1));
            ok &= m.0.v == e0.v && m.0.len == e0.len && (m.1).0.v == e10.v && (m.1).1.v == e11.v;
            let m = C3::merge(&c, &d);
            let (e0, e10, e11) = (SumAdd::merge(&c.0, &d0), MinAdd::merge(&(c.1).0, &d10), MaxAdd::merge(&(c.1).1, &d11));
            ok &= m.0.v == e0.v && m.0.len == e0.len && (m.1).0.v == e10.v && (m.1).1.v == e11.v;
            let mut tree: rlib_segtree::Segtree<C3, i64> = rlib_segtree::Segtree::new(5, Combinator::from(v));
            tree.modify(1, 3, &2);
            let a = tree.ask(0, 4);
            ok &= a.0.v == 5 * v + 6 && (a.1).0.v == v && (a.1).1.v == v + 2;
            n += 1;
        }
        if !ok {
            let v = vcore::Violation::new("combinator/from-default", "Combinator::from / Default / merge do not behave like the two components side by side");
            ctx.violation("combinator-from-default", "segtree-history", &Case { alg: 7, nonneg: false, init: Ctor::New { n: 5, v: 0 }, ops: vec![] }, &v);
        }
        ctx.class("combinator-from-default-checks", n);
    }
    let law_strat = (0u8..5, prop::collection::vec(any::<u32>(), 3..12), any::<u32>(), any::<u32>())
        .prop_map(|(alg, raws, m1, m2)| LawCase { alg, raws, m1, m2 });
    ctx.prop("harness-item-laws", "law", ctx.n(2_000, 20_000), law_strat, laws);

    // E2: every history of length ≤ L over the op alphabet on n ≤ 4, free algebra
    let maxlen = ctx.n(3, 4) as usize;
    for n in 1..=4usize {
        for len in 0..=maxlen {
            let alpha = alphabet(n);
            let vals: Vec<u32> = (1..=n as u32).collect();
            let name = format!("exhaustive-free-n{}-len{}", n, len);
            let domain = format!("all {}^{} histories over the {}-op alphabet on n={} with the free algebra", alpha.len(), len, alpha.len(), n);
            let it = Histories::new(alpha, len).map(move |ops| Case { alg: 10, nonneg: false, init: Ctor::Slice { vals: vals.clone() }, ops });
            ctx.exhaustive(&name, "segtree-history", &domain, true, it, |c| run_case(c, Focus::Fold));
        }
    }

    // E1: generated histories per algebra
    let per_alg = ctx.n(3_000, 100_000);
    let max_ops = ctx.n(60, 400) as usize;
    for alg in 0..19u8 {
        let name = format!("histories-{}", ALG_NAMES[alg as usize]);
        ctx.prop(&name, "segtree-history", per_alg, case(Some(alg), max_ops), |c| run_case(c, Focus::Fold));
    }
    // large trees (depth up to 13 quick / 17 thorough): few, short histories
    let lg = ctx.n(12, 15) as u32;
    ctx.prop_split("histories-large-trees", "segtree-history", ctx.n(250, 3_000), ctx.parts(), case_large(None, lg, 40).boxed(), |c| run_case(c, Focus::Fold));
    // huge trees (height 21..23): SumAdd with non-negative values, prefix-sum oracle
    ctx.replayer("segtree-huge", |v| run_huge(&serde_json::from_value::<HugeCase>(v.clone()).expect("case"), Focus::Fold));
    ctx.prop_cfg("huge-trees", "segtree-huge", ctx.n(6, 60), 60, huge_case(vec![1 << 22, (1 << 21) + 1, 3 * (1 << 20) + 5, (1 << 22) + 7], 40), |c| run_huge(c, Focus::Fold));
    ctx.finish();
}
