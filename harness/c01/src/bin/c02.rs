use c01::algebra::*;
use c01::*;
use proptest::strategy::Strategy;
use vcore::Ctx;

fn main() {
    let mut ctx = Ctx::init("C02");
    ctx.rule(
        "Cases are the C01 operation histories (sizes 1..=130 and a class of large trees up to 2^12 quick / 2^15 thorough); the judged operations are lower_bound(l, pred) and lower_bound_rev(r, pred) with an \
         instrumented predicate from a family that is verified monotone on the model before use (const-true, const-false, sum>=t, \
         min<=t, max>=t, len>=k, contains c; thresholds taken from the model's own prefix folds +-1). Oracle: the result equals the \
         brute-force first (last) index, None iff none; every aggregate shown to the predicate equals the in-order model fold of some \
         range starting at l (ending at r). Non-trivial = the search starts strictly inside the array, the answer lies in the other \
         top-level half of the tree than the start, and a partial-range modify precedes it. Distinct = distinct (sub-check, case).",
    );
    ctx.assume("a predicate family instance is used only if it is monotone along the growing ranges of the current model (otherwise the search op is skipped and counted)");
    ctx.replayer("segtree-history", |v| {
        let c: Case = serde_json::from_value(v.clone()).expect("replay case");
        run_case(&c, Focus::Search)
    });
    ctx.begin();

    let maxlen = ctx.n(3, 4) as usize;
    for n in 1..=4usize {
        for len in 1..=maxlen {
            let alpha = alphabet(n);
            let vals: Vec<u32> = (1..=n as u32).collect();
            let name = format!("exhaustive-free-n{}-len{}", n, len);
            let domain = format!("all {}^{} histories over the {}-op alphabet on n={} with the free algebra", alpha.len(), len, alpha.len(), n);
            let it = Histories::new(alpha, len).map(move |ops| Case { alg: 10, nonneg: false, init: Ctor::Slice { vals: vals.clone() }, ops });
            ctx.exhaustive(&name, "segtree-history", &domain, true, it, |c| run_case(c, Focus::Search));
        }
    }
    let per_alg = ctx.n(3_000, 100_000);
    let max_ops = ctx.n(60, 400) as usize;
    for alg in 0..19u8 {
        let name = format!("histories-{}", ALG_NAMES[alg as usize]);
        ctx.prop(&name, "segtree-history", per_alg, case(Some(alg), max_ops), |c| run_case(c, Focus::Search));
    }
    // large trees (depth up to 13 quick / 17 thorough): few, short histories
    let lg = ctx.n(12, 15) as u32;
    ctx.prop_split("histories-large-trees", "segtree-history", ctx.n(250, 3_000), ctx.parts(), case_large(None, lg, 40).boxed(), |c| run_case(c, Focus::Search));
    // huge trees (height 21..23): SumAdd with non-negative values, prefix-sum oracle
    ctx.replayer("segtree-huge", |v| run_huge(&serde_json::from_value::<HugeCase>(v.clone()).expect("case"), Focus::Search));
    ctx.prop_cfg("huge-trees", "segtree-huge", ctx.n(6, 60), 60, huge_case(vec![1 << 22, (1 << 21) + 1, 3 * (1 << 20) + 5, (1 << 22) + 7], 40), |c| run_huge(c, Focus::Search));
    ctx.finish();
}
