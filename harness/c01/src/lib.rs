//! C01 / C02: segment tree vs. plain-array model. One interpreter, two foci:
//! `Focus::Fold` judges construction / set / modify / ask / debug (C01), `Focus::Search` judges the
//! boundary searches and every aggregate shown to the predicate (C02).

pub mod algebra;

use algebra::*;
use proptest::prelude::*;
use rlib_segtree::Segtree;
use serde::{Deserialize, Serialize};
use std::cell::RefCell;
use vcore::{pick, vensure, CaseResult, CaseStats, Violation};

#[derive(Clone, Copy, PartialEq, Eq, Debug)]
pub enum Focus {
    Fold,
    Search,
}

#[derive(Clone, Debug, Hash, Serialize, Deserialize, PartialEq)]
pub enum Ctor {
    New { n: u16, v: u32 },
    Slice { vals: Vec<u32> },
    Iter { vals: Vec<u32> },
}

#[derive(Clone, Debug, Hash, Serialize, Deserialize, PartialEq)]
pub enum Op {
    Set { i: u16, v: u32 },
    Modify { l: u16, r: u16, m: u32 },
    Ask { l: u16, r: u16 },
    LowerBound { l: u16, fam: u8, t: u32 },
    LowerBoundRev { r: u16, fam: u8, t: u32 },
    Debug,
    Rebuild(Ctor),
    /// rebuild from items the tree itself handed out (`ask(i,i)`: leaves that range modifications have
    /// reached, so their internal bookkeeping is not that of a freshly made item).
    /// mode 0 from_slice, 1 from_iter, 2 new(n, ask(pos,pos))
    RebuildFromLeaves { mode: u8, pos: u16 },
}

#[derive(Clone, Debug, Hash, Serialize, Deserialize, PartialEq)]
pub struct Case {
    pub alg: u8,
    pub nonneg: bool,
    pub init: Ctor,
    pub ops: Vec<Op>,
}

fn build<A: Alg>(c: &Ctor, nonneg: bool) -> (Segtree<A::Item, A::M>, Vec<A::E>) {
    match c {
        Ctor::New { n, v } => {
            let n = (*n).max(1) as usize;
            let e = A::elem(*v, nonneg);
            (Segtree::new(n, A::item(&e)), vec![e; n])
        }
        Ctor::Slice { vals } => {
            let es: Vec<A::E> = vals.iter().map(|v| A::elem(*v, nonneg)).collect();
            let items: Vec<A::Item> = es.iter().map(A::item).collect();
            (Segtree::from_slice(&items), es)
        }
        Ctor::Iter { vals } => {
            let es: Vec<A::E> = vals.iter().map(|v| A::elem(*v, nonneg)).collect();
            let items: Vec<A::Item> = es.iter().map(A::item).collect();
            (Segtree::from_iter(items.into_iter()), es)
        }
    }
}

/// Is `flags` of the form false* true* ?
fn monotone(flags: &[bool]) -> bool {
    flags.windows(2).all(|w| !w[0] || w[1])
}

pub fn run<A: Alg>(case: &Case, focus: Focus) -> CaseResult {
    let mut st = CaseStats::default();
    st.size = case.ops.len() as u64;
    let (mut tree, mut model) = build::<A>(&case.init, case.nonneg);
    st.label(match case.init {
        Ctor::New { .. } => "ctor-new",
        Ctor::Slice { .. } => "ctor-slice",
        Ctor::Iter { .. } => "ctor-iter",
    });
    if !A::COMMUTATIVE {
        st.label("noncommutative-algebra");
    }
    // pending: a partial-range modify happened since the last rebuild and has not been observed yet
    let mut partial_modify: Option<(usize, usize)> = None;
    let fold = focus == Focus::Fold;
    for (step, op) in case.ops.iter().enumerate() {
        let n = model.len();
        if !n.is_power_of_two() {
            st.label("n-not-power-of-two");
        }
        if n > 130 {
            st.label("n>130");
        }
        if n > 4096 {
            st.label("n>4096");
        }
        match op {
            Op::Set { i, v } => {
                let i = pick(*i, n);
                let e = A::elem(*v, case.nonneg);
                tree.set(i, A::item(&e));
                model[i] = e;
                if let Some((l, r)) = partial_modify {
                    if l <= i && i <= r {
                        st.label("set-inside-pending-modify");
                        if fold {
                            st.nontrivial = true;
                        }
                    }
                }
            }
            Op::Modify { l, r, m } => {
                let l = pick(*l, n);
                let r = l + pick(*r, n - l);
                let m = A::modifier(*m, case.nonneg);
                tree.modify(l, r, &m);
                for e in model[l..=r].iter_mut() {
                    A::apply(e, &m);
                }
                if l > 0 || r < n - 1 {
                    partial_modify = Some((l, r));
                    st.label("partial-modify");
                }
            }
            Op::Ask { l, r } => {
                let l = pick(*l, n);
                let r = l + pick(*r, n - l);
                let got = A::obs(&tree.ask(l, r));
                let want = A::fold(&model[l..=r]);
                if fold {
                    vensure!(
                        got == want,
                        "ask",
                        "step {}: {} n={} ask({},{}) = {:?}, in-order fold of the model = {:?}; model={:?}",
                        step, A::NAME, n, l, r, got, want, model
                    );
                }
                if let Some((ml, mr)) = partial_modify {
                    if l <= mr && ml <= r {
                        st.label("ask-overlaps-partial-modify");
                        if fold {
                            st.nontrivial = true;
                        }
                    }
                }
            }
            Op::LowerBound { l, fam, t } => {
                let l = pick(*l, n);
                let folds: Vec<A::O> = (l..n).map(|r| A::fold(&model[l..=r])).collect();
                let p = A::pred(*fam, *t, &folds);
                let flags: Vec<bool> = folds.iter().map(|f| p(f)).collect();
                if !monotone(&flags) {
                    st.label("search-skipped-nonmonotone");
                    continue;
                }
                let want = flags.iter().position(|&b| b).map(|k| l + k);
                let seen: RefCell<Vec<A::O>> = RefCell::new(Vec::new());
                let got = tree.lower_bound(l, |it| {
                    let o = A::obs(it);
                    let r = p(&o);
                    seen.borrow_mut().push(o);
                    r
                });
                if !fold {
                    vensure!(
                        got == want,
                        "lower_bound/result",
                        "step {}: {} n={} lower_bound(l={}) = {:?}, brute force = {:?}; prefix flags={:?} model={:?}",
                        step, A::NAME, n, l, got, want, flags, model
                    );
                    for o in seen.borrow().iter() {
                        vensure!(
                            folds.contains(o),
                            "lower_bound/predicate-argument",
                            "step {}: {} n={} lower_bound(l={}) showed the predicate {:?}, which is not the in-order aggregate of any range [{}..=r]; model={:?}",
                            step, A::NAME, n, l, o, l, model
                        );
                    }
                    search_stats(&mut st, l, want, n, partial_modify.is_some(), l > 0);
                }
                if partial_modify.is_some() && fold {
                    st.label("search-after-partial-modify");
                }
            }
            Op::LowerBoundRev { r, fam, t } => {
                let r = pick(*r, n);
                // folds[k] = aggregate of [r-k ..= r]
                let folds: Vec<A::O> = (0..=r).map(|k| A::fold(&model[r - k..=r])).collect();
                let p = A::pred(*fam, *t, &folds);
                let flags: Vec<bool> = folds.iter().map(|f| p(f)).collect();
                if !monotone(&flags) {
                    st.label("search-skipped-nonmonotone");
                    continue;
                }
                let want = flags.iter().position(|&b| b).map(|k| r - k);
                let seen: RefCell<Vec<A::O>> = RefCell::new(Vec::new());
                let got = tree.lower_bound_rev(r, |it| {
                    let o = A::obs(it);
                    let res = p(&o);
                    seen.borrow_mut().push(o);
                    res
                });
                if !fold {
                    vensure!(
                        got == want,
                        "lower_bound_rev/result",
                        "step {}: {} n={} lower_bound_rev(r={}) = {:?}, brute force = {:?}; suffix flags={:?} model={:?}",
                        step, A::NAME, n, r, got, want, flags, model
                    );
                    for o in seen.borrow().iter() {
                        vensure!(
                            folds.contains(o),
                            "lower_bound_rev/predicate-argument",
                            "step {}: {} n={} lower_bound_rev(r={}) showed the predicate {:?}, which is not the in-order aggregate of any range [l..={}]; model={:?}",
                            step, A::NAME, n, r, o, r, model
                        );
                    }
                    search_stats(&mut st, r, want, n, partial_modify.is_some(), r < n - 1);
                }
            }
            Op::Debug => {
                let s = tree.debug();
                if fold {
                    let items: Vec<A::Item> = (0..n).map(|i| tree.ask(i, i)).collect();
                    for (i, it) in items.iter().enumerate() {
                        let want = A::fold(&model[i..=i]);
                        vensure!(
                            A::obs(it) == want,
                            "debug/leaf",
                            "step {}: {} n={} element {} reads {:?} after debug(), model {:?}",
                            step, A::NAME, n, i, A::obs(it), want
                        );
                    }
                    vensure!(
                        s == format!("{:?}", items),
                        "debug/render",
                        "step {}: {} debug() = {} but the elements render as {:?}",
                        step, A::NAME, s, items
                    );
                }
            }
            Op::RebuildFromLeaves { mode, pos } => {
                let leaves: Vec<A::Item> = (0..n).map(|i| tree.ask(i, i)).collect();
                match mode % 3 {
                    0 => tree = Segtree::from_slice(&leaves),
                    1 => tree = Segtree::from_iter(leaves.into_iter()),
                    _ => {
                        let p = pick(*pos, n);
                        tree = Segtree::new(n, leaves[p].clone());
                        let e = model[p].clone();
                        model = vec![e; n];
                    }
                }
                partial_modify = None;
                st.label("rebuild-from-handed-out-items");
            }
            Op::Rebuild(c) => {
                let (t, m) = build::<A>(c, case.nonneg);
                tree = t;
                model = m;
                partial_modify = None;
                st.label("rebuild");
            }
        }
    }
    // final full observation: every element and every prefix / suffix range
    if fold {
        let n = model.len();
        for i in 0..n {
            let got = A::obs(&tree.ask(i, i));
            let want = A::fold(&model[i..=i]);
            vensure!(
                got == want,
                "final/element",
                "after the history: {} n={} element {} = {:?}, model = {:?}; model={:?}",
                A::NAME, n, i, got, want, model
            );
        }
        let got = A::obs(&tree.ask(0, n - 1));
        let want = A::fold(&model[..]);
        vensure!(got == want, "final/all", "after the history: {} n={} ask(0,n-1) = {:?}, model fold = {:?}", A::NAME, n, got, want);
    }
    Ok(st)
}

fn search_stats(st: &mut CaseStats, start: usize, want: Option<usize>, n: usize, after_partial: bool, inside: bool) {
    st.label("search-judged");
    match want {
        None => st.label("search-none"),
        Some(a) if a == start => st.label("search-hit-at-start"),
        Some(_) => st.label("search-hit-later"),
    }
    // root split point of the tree over [0, n-1]
    let m = (n - 1) / 2;
    let other_half = want.map(|a| (a <= m) != (start <= m)).unwrap_or(false);
    if other_half {
        st.label("search-crosses-root-split");
    }
    if inside && other_half && after_partial {
        st.nontrivial = true;
    }
}

pub fn run_case(case: &Case, focus: Focus) -> CaseResult {
    match case.alg % 19 {
        0 => run::<AMin>(case, focus),
        1 => run::<AMax>(case, focus),
        2 => run::<ASum>(case, focus),
        3 => run::<AMinAdd>(case, focus),
        4 => run::<AMaxAdd>(case, focus),
        5 => run::<ASumAdd>(case, focus),
        6 => run::<ACombMinMaxAdd>(case, focus),
        7 => run::<ACombSumMinMax>(case, focus),
        8 => run::<AComb4>(case, focus),
        9 => run::<ACombMinMax>(case, focus),
        10 => run::<AFree>(case, focus),
        11 => run::<AHash>(case, focus),
        12 => run::<AAssignSum>(case, focus),
        13 => run::<AAssignMin>(case, focus),
        14 => run::<AFlip>(case, focus),
        15 => run::<AMinExt>(case, focus),
        16 => run::<AMaxExt>(case, focus),
        17 => run::<AMinF>(case, focus),
        _ => run::<AMaxF>(case, focus),
    }
}

// ---------------------------------------------------------------------------------------------
// Strategies
// ---------------------------------------------------------------------------------------------

fn raw_val() -> impl Strategy<Value = u32> {
    prop_oneof![3 => 0u32..16, 2 => any::<u32>(), 1 => 16u32..4096]
}

fn size() -> impl Strategy<Value = usize> {
    prop_oneof![
        4 => 1usize..=9,
        3 => prop::sample::select(vec![1usize, 2, 3, 4, 5, 7, 8, 9, 15, 16, 17, 31, 32, 33, 63, 64, 65, 127, 128, 129, 130]),
        2 => 1usize..=130,
    ]
}

/// sizes far beyond the small scope: depth > 8, lengths around 2^k up to 2^13 (quick) / 2^16+ (thorough)
fn large_size(max_log: u32) -> impl Strategy<Value = usize> {
    prop_oneof![
        3 => (8u32..=max_log, -2i32..=2).prop_map(|(k, d)| ((1i64 << k) + d as i64).max(131) as usize),
        2 => 131usize..=(1usize << max_log),
        1 => Just(255usize), 1 => Just(256usize), 1 => Just(257usize),
    ]
}

pub fn ctor_large(max_log: u32) -> impl Strategy<Value = Ctor> {
    large_size(max_log).prop_flat_map(|n| {
        prop_oneof![
            raw_val().prop_map(move |v| Ctor::New { n: n as u16, v }),
            prop::collection::vec(raw_val(), n).prop_map(|vals| Ctor::Slice { vals }),
            prop::collection::vec(raw_val(), n).prop_map(|vals| Ctor::Iter { vals }),
        ]
    })
}

/// histories on large trees (few, short: the model is O(n) per operation)
pub fn case_large(alg: Option<u8>, max_log: u32, max_ops: usize) -> impl Strategy<Value = Case> {
    let a = match alg {
        Some(a) => Just(a).boxed(),
        None => (0u8..19).boxed(),
    };
    let small_op = prop_oneof![
        20 => (idx(), raw_val()).prop_map(|(i, v)| Op::Set { i, v }),
        40 => (idx(), idx(), any::<u32>()).prop_map(|(l, r, m)| Op::Modify { l, r, m }),
        30 => (idx(), idx()).prop_map(|(l, r)| Op::Ask { l, r }),
        15 => (idx(), any::<u8>(), any::<u32>()).prop_map(|(l, fam, t)| Op::LowerBound { l, fam, t }),
        15 => (idx(), any::<u8>(), any::<u32>()).prop_map(|(r, fam, t)| Op::LowerBoundRev { r, fam, t }),
    ];
    (a, prop::bool::weighted(0.4), ctor_large(max_log), prop::collection::vec(small_op, 0..max_ops))
        .prop_map(|(alg, nonneg, init, ops)| Case { alg, nonneg, init, ops })
}

pub fn ctor() -> impl Strategy<Value = Ctor> {
    size().prop_flat_map(|n| {
        prop_oneof![
            raw_val().prop_map(move |v| Ctor::New { n: n as u16, v }),
            prop::collection::vec(raw_val(), n).prop_map(|vals| Ctor::Slice { vals }),
            prop::collection::vec(raw_val(), n).prop_map(|vals| Ctor::Iter { vals }),
        ]
    })
}

fn idx() -> impl Strategy<Value = u16> {
    prop_oneof![3 => any::<u16>(), 1 => Just(0u16), 1 => Just(u16::MAX)]
}

pub fn op() -> impl Strategy<Value = Op> {
    prop_oneof![
        20 => (idx(), raw_val()).prop_map(|(i, v)| Op::Set { i, v }),
        40 => (idx(), idx(), any::<u32>()).prop_map(|(l, r, m)| Op::Modify { l, r, m }),
        30 => (idx(), idx()).prop_map(|(l, r)| Op::Ask { l, r }),
        20 => (idx(), any::<u8>(), any::<u32>()).prop_map(|(l, fam, t)| Op::LowerBound { l, fam, t }),
        20 => (idx(), any::<u8>(), any::<u32>()).prop_map(|(r, fam, t)| Op::LowerBoundRev { r, fam, t }),
        2 => Just(Op::Debug),
        2 => ctor().prop_map(Op::Rebuild),
        3 => (0u8..3, idx()).prop_map(|(mode, pos)| Op::RebuildFromLeaves { mode, pos }),
    ]
}

pub fn case(alg: Option<u8>, max_ops: usize) -> impl Strategy<Value = Case> {
    let a = match alg {
        Some(a) => Just(a).boxed(),
        None => (0u8..19).boxed(),
    };
    (a, prop::bool::weighted(0.4), ctor(), prop::collection::vec(op(), 0..max_ops))
        .prop_map(|(alg, nonneg, init, ops)| Case { alg, nonneg, init, ops })
}

// ---------------------------------------------------------------------------------------------
// Small-scope exhaustive enumeration (E2): all histories of length ≤ L over a fixed op alphabet on n ≤ 4
// ---------------------------------------------------------------------------------------------

/// Op alphabet for a tree of size n: raw indices chosen so that `pick` lands on every position.
pub fn alphabet(n: usize) -> Vec<Op> {
    let raw = |i: usize, len: usize| -> u16 { (((i << 16) + len - 1) / len) as u16 };
    let mut ops = Vec::new();
    for i in 0..n {
        for v in [1u32, 9] {
            ops.push(Op::Set { i: raw(i, n), v });
        }
    }
    for l in 0..n {
        for r in l..n {
            // modifiers: an assign (a=0) and a scale-and-shift (a=2), which do not commute
            for m in [0u32 | (5 << 8), 4u32 | (3 << 8)] {
                ops.push(Op::Modify { l: raw(l, n), r: raw(r - l, n - l), m });
            }
            ops.push(Op::Ask { l: raw(l, n), r: raw(r - l, n - l) });
        }
    }
    for l in 0..n {
        // family 2 = "len ≥ k" for FreeAffine; t selects k
        for t in [0u32, 4] {
            ops.push(Op::LowerBound { l: raw(l, n), fam: 2, t });
            ops.push(Op::LowerBoundRev { r: raw(l, n), fam: 2, t });
        }
    }
    debug_assert!(ops.iter().all(|o| match o {
        Op::Set { i, .. } => pick(*i, n) < n,
        _ => true,
    }));
    ops
}

/// Iterator over all op sequences of length exactly `len` over `alpha` (odometer order).
pub struct Histories {
    alpha: Vec<Op>,
    idx: Vec<usize>,
    done: bool,
}
impl Histories {
    pub fn new(alpha: Vec<Op>, len: usize) -> Self {
        Self { done: alpha.is_empty() && len > 0, alpha, idx: vec![0; len] }
    }
}
impl Iterator for Histories {
    type Item = Vec<Op>;
    fn next(&mut self) -> Option<Vec<Op>> {
        if self.done {
            return None;
        }
        let out: Vec<Op> = self.idx.iter().map(|&i| self.alpha[i].clone()).collect();
        let mut k = self.idx.len();
        loop {
            if k == 0 {
                self.done = true;
                break;
            }
            k -= 1;
            self.idx[k] += 1;
            if self.idx[k] < self.alpha.len() {
                break;
            }
            self.idx[k] = 0;
        }
        Some(out)
    }
}

// ---------------------------------------------------------------------------------------------
// Byte decoder for the libFuzzer target (E3)
// ---------------------------------------------------------------------------------------------

pub fn decode(data: &[u8]) -> Option<Case> {
    let mut p = 0usize;
    let mut take = |k: usize| -> Option<&[u8]> {
        if p + k > data.len() {
            None
        } else {
            p += k;
            Some(&data[p - k..p])
        }
    };
    let h = take(3)?;
    let alg = h[0] % 19;
    let nonneg = h[1] & 1 == 1;
    let n = 1 + (h[2] as usize % 40);
    let ctor_kind = h[1] >> 6;
    fn rv(b: &[u8]) -> u32 {
        if b[0] & 1 == 0 {
            (b[1] as u32) % 16
        } else {
            u32::from_le_bytes([b[0], b[1], b[2], b[3]])
        }
    }
    let init = match ctor_kind {
        0 | 1 => Ctor::New { n: n as u16, v: rv(take(4)?) },
        k => {
            let mut vals = Vec::new();
            for _ in 0..n {
                vals.push(rv(take(4)?));
            }
            if k == 2 {
                Ctor::Slice { vals }
            } else {
                Ctor::Iter { vals }
            }
        }
    };
    let mut ops = Vec::new();
    while let Some(b) = take(8) {
        let a = u16::from_le_bytes([b[1], b[2]]);
        let c = u16::from_le_bytes([b[3], b[4]]);
        let v = u32::from_le_bytes([b[4], b[5], b[6], b[7]]);
        ops.push(match b[0] % 12 {
            0 | 1 => Op::Set { i: a, v: rv(&b[4..8]) },
            2 | 3 | 4 | 5 => Op::Modify { l: a, r: c, m: v },
            6 | 7 => Op::Ask { l: a, r: c },
            8 | 9 => Op::LowerBound { l: a, fam: b[3], t: v },
            10 => Op::LowerBoundRev { r: a, fam: b[3], t: v },
            _ => {
                if b[1] & 3 == 0 {
                    Op::Debug
                } else if b[1] & 3 == 1 {
                    Op::RebuildFromLeaves { mode: b[3], pos: a }
                } else {
                    Op::LowerBoundRev { r: a, fam: b[3], t: v }
                }
            }
        });
        if ops.len() >= 120 {
            break;
        }
    }
    Some(Case { alg, nonneg, init, ops })
}

// ---------------------------------------------------------------------------------------------
// Laws of the harness items (a wrong harness item would be a false-alarm source)
// ---------------------------------------------------------------------------------------------

pub fn check_laws<A: Alg>(raws: &[u32], m1: u32, m2: u32) -> Result<(), Violation> {
    use rlib_segtree::SegtreeItem;
    let es: Vec<A::E> = raws.iter().map(|r| A::elem(*r, false)).collect();
    let items: Vec<A::Item> = es.iter().map(A::item).collect();
    if items.len() < 3 {
        return Ok(());
    }
    let k = items.len() / 3;
    let f = |s: &[A::Item]| -> A::Item { s[1..].iter().fold(s[0].clone(), |a, b| A::Item::merge(&a, b)) };
    let (a, b, c) = (f(&items[..k.max(1)]), f(&items[k.max(1)..(2 * k).max(2)]), f(&items[(2 * k).max(2)..]));
    // associativity
    let l = A::Item::merge(&A::Item::merge(&a, &b), &c);
    let r = A::Item::merge(&a, &A::Item::merge(&b, &c));
    vensure!(A::obs(&l) == A::obs(&r), "harness-law/assoc", "{}: merge not associative", A::NAME);
    // identity
    let d = A::Item::default();
    vensure!(A::obs(&A::Item::merge(&d, &a)) == A::obs(&a), "harness-law/identity", "{}: default is not a left identity", A::NAME);
    vensure!(A::obs(&A::Item::merge(&a, &d)) == A::obs(&a), "harness-law/identity", "{}: default is not a right identity", A::NAME);
    // modifier distributes over merge; two modifiers via push equal element-wise application
    let (ma, mb) = (A::modifier(m1, false), A::modifier(m2, false));
    let mut whole = A::Item::merge(&a, &b);
    whole.modify(&ma);
    whole.modify(&mb);
    let (mut a2, mut b2) = (a.clone(), b.clone());
    whole.clone().push(&mut a2, &mut b2);
    let mut es2 = es[..(2 * k).max(2)].to_vec();
    for e in es2.iter_mut() {
        A::apply(e, &ma);
        A::apply(e, &mb);
    }
    vensure!(A::obs(&whole) == A::fold(&es2), "harness-law/action", "{}: modify on an aggregate differs from element-wise application", A::NAME);
    vensure!(
        A::obs(&A::Item::merge(&a2, &b2)) == A::fold(&es2),
        "harness-law/push",
        "{}: pushing composed modifiers differs from element-wise application",
        A::NAME
    );
    Ok(())
}

// ---------------------------------------------------------------------------------------------
// Huge trees (height > 20): SumAdd<i64> with non-negative values, so that "sum >= t" is monotone and the
// oracle is a prefix-sum array with binary search. Few operations: the model is O(n) per modification.
// ---------------------------------------------------------------------------------------------

#[derive(Clone, Debug, Hash, Serialize, Deserialize, PartialEq)]
pub enum HugeOp {
    Set { i: u32, v: u16 },
    Modify { l: u32, r: u32, m: u16 },
    Ask { l: u32, r: u32 },
    /// threshold = fold of the model over [l, l+span] plus delta-1 (so flips land exactly at / next to l+span)
    LowerBound { l: u32, span: u32, delta: u8 },
    LowerBoundRev { r: u32, span: u32, delta: u8 },
}

#[derive(Clone, Debug, Hash, Serialize, Deserialize, PartialEq)]
pub struct HugeCase {
    pub n: u32,
    pub ops: Vec<HugeOp>,
}

/// positions whose root-to-leaf paths alternate as much as possible, plus the ends
fn huge_pos(raw: u32, n: usize) -> usize {
    let special = [0usize, 1, 2, n - 1, n - 2, n - 3, n / 2, n / 2 - 1, n / 2 + 1, n / 3, 2 * n / 3, 0x155555 % n, 0x2AAAAA % n, 0x0FFFFF % n, 0x100000 % n, 0x1FFFFF % n, 0x200001 % n];
    if raw & 1 == 1 {
        special[(raw as usize >> 1) % special.len()]
    } else {
        (raw as usize >> 1) % n
    }
}

pub fn run_huge(c: &HugeCase, focus: Focus) -> CaseResult {
    use rlib_segtree::segtree_items::SumAdd;
    let mut st = CaseStats::default();
    let n = (c.n as usize).max(4);
    st.size = n as u64;
    let mut model: Vec<i64> = (0..n).map(|i| 1 + (i % 3) as i64).collect();
    let mut tree: Segtree<SumAdd<i64>, i64> = Segtree::from_iter(model.iter().map(|&v| SumAdd::new(v)).collect::<Vec<_>>().into_iter());
    let mut prefix: Vec<i64> = Vec::new();
    let rebuild = |model: &Vec<i64>, prefix: &mut Vec<i64>| {
        prefix.clear();
        prefix.push(0);
        let mut s = 0i64;
        for &v in model {
            s += v;
            prefix.push(s);
        }
    };
    rebuild(&model, &mut prefix);
    let fold = focus == Focus::Fold;
    for (step, op) in c.ops.iter().enumerate() {
        match op {
            HugeOp::Set { i, v } => {
                let i = huge_pos(*i, n);
                tree.set(i, SumAdd::new(*v as i64));
                model[i] = *v as i64;
                rebuild(&model, &mut prefix);
            }
            HugeOp::Modify { l, r, m } => {
                let (mut l, mut r) = (huge_pos(*l, n), huge_pos(*r, n));
                if l > r {
                    std::mem::swap(&mut l, &mut r);
                }
                tree.modify(l, r, &(*m as i64));
                for v in model[l..=r].iter_mut() {
                    *v += *m as i64;
                }
                rebuild(&model, &mut prefix);
            }
            HugeOp::Ask { l, r } => {
                let (mut l, mut r) = (huge_pos(*l, n), huge_pos(*r, n));
                if l > r {
                    std::mem::swap(&mut l, &mut r);
                }
                let got = tree.ask(l, r);
                let want = prefix[r + 1] - prefix[l];
                if fold {
                    vensure!(got.v == want && got.len == (r - l + 1) as i64, "ask", "step {}: n={} ask({},{}) = ({}, len {}), model sum {} len {}", step, n, l, r, got.v, got.len, want, r - l + 1);
                }
            }
            HugeOp::LowerBound { l, span, delta } => {
                let l = huge_pos(*l, n);
                let e = (l + (*span as usize) % (n - l)).min(n - 1);
                let t = prefix[e + 1] - prefix[l] + *delta as i64 % 3 - 1;
                // smallest r >= l with sum(l..=r) >= t  (values are non-negative: monotone)
                let want = if t <= 0 {
                    Some(l)
                } else {
                    let target = prefix[l] + t;
                    let k = prefix.partition_point(|&p| p < target); // first prefix index with p >= target
                    if k <= n && k > l {
                        Some(k - 1)
                    } else {
                        None
                    }
                };
                let got = tree.lower_bound(l, |it| it.v >= t);
                if !fold {
                    vensure!(got == want, "lower_bound/result", "step {}: n={} lower_bound(l={}, sum>={}) = {:?}, expected {:?}", step, n, l, t, got, want);
                    st.nontrivial = true;
                }
            }
            HugeOp::LowerBoundRev { r, span, delta } => {
                let r = huge_pos(*r, n);
                let s = r - (*span as usize) % (r + 1);
                let t = prefix[r + 1] - prefix[s] + *delta as i64 % 3 - 1;
                // largest l <= r with sum(l..=r) >= t
                let want = if t <= 0 {
                    Some(r)
                } else {
                    let target = prefix[r + 1] - t; // need prefix[l] <= target
                    if prefix[0] > target {
                        None
                    } else {
                        // last index l in 0..=r with prefix[l] <= target
                        let k = prefix[..=r].partition_point(|&p| p <= target);
                        if k == 0 {
                            None
                        } else {
                            Some(k - 1)
                        }
                    }
                };
                let got = tree.lower_bound_rev(r, |it| it.v >= t);
                if !fold {
                    vensure!(got == want, "lower_bound_rev/result", "step {}: n={} lower_bound_rev(r={}, sum>={}) = {:?}, expected {:?}", step, n, r, t, got, want);
                    st.nontrivial = true;
                }
            }
        }
    }
    if fold {
        for i in [0usize, 1, n / 2, n - 2, n - 1] {
            let got = tree.ask(i, i);
            vensure!(got.v == model[i], "final/element", "n={} element {} = {}, model {}", n, i, got.v, model[i]);
        }
        st.nontrivial = c.ops.iter().any(|o| matches!(o, HugeOp::Modify { .. }));
    }
    st.label("huge-tree");
    Ok(st)
}

pub fn huge_case(sizes: Vec<u32>, max_ops: usize) -> impl Strategy<Value = HugeCase> {
    let op = prop_oneof![
        2 => (any::<u32>(), any::<u16>()).prop_map(|(i, v)| HugeOp::Set { i, v }),
        3 => (any::<u32>(), any::<u32>(), 0u16..100).prop_map(|(l, r, m)| HugeOp::Modify { l, r, m }),
        4 => (any::<u32>(), any::<u32>()).prop_map(|(l, r)| HugeOp::Ask { l, r }),
        6 => (any::<u32>(), prop_oneof![0u32..64, any::<u32>()], 0u8..3).prop_map(|(l, span, delta)| HugeOp::LowerBound { l, span, delta }),
        6 => (any::<u32>(), prop_oneof![0u32..64, any::<u32>()], 0u8..3).prop_map(|(r, span, delta)| HugeOp::LowerBoundRev { r, span, delta }),
    ];
    (prop::sample::select(sizes), prop::collection::vec(op, 1..max_ops)).prop_map(|(n, ops)| HugeCase { n, ops })
}
