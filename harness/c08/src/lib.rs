//! C08: Reader results are a function of the input bytes alone.
//! Case = (input bytes, read script, delivery schedule). Oracles: (a) an independent slice parser,
//! (b) metamorphic: the same (input, script) under whole-buffer delivery.

use proptest::prelude::*;
use rlib_io::Reader;
use serde::{Deserialize, Serialize};
use std::cell::RefCell;
use std::io::Read;
use std::rc::Rc;
use vcore::{CaseResult, CaseStats, Violation, vensure};

#[derive(Clone, Copy, Debug, Hash, Serialize, Deserialize, PartialEq, Eq)]
pub enum Ty {
    I8,
    I16,
    I32,
    I64,
    I128,
    Isize,
    U8,
    U16,
    U32,
    U64,
    U128,
    Usize,
}
pub const TYS: [Ty; 12] = [Ty::I8, Ty::I16, Ty::I32, Ty::I64, Ty::I128, Ty::Isize, Ty::U8, Ty::U16, Ty::U32, Ty::U64, Ty::U128, Ty::Usize];

#[derive(Clone, Debug, Hash, Serialize, Deserialize, PartialEq)]
pub enum R {
    Int(Ty),
    Word,
    Char,
    Line,
    Lines,
    IsEof,
    /// read_vec::<ty>(n)
    VecOf(Ty, u8),
    VecWords(u8),
    /// read::<(i32, String, u8, i64, char, u128, i16, usize)> truncated to the first k types, k in 2..=8
    Tuple(u8),
}

#[derive(Clone, Debug, Hash, Serialize, Deserialize, PartialEq)]
pub struct Case {
    /// input bytes (ASCII), kept as a String so that replay files are readable
    pub input: String,
    pub script: Vec<R>,
    /// stream offsets at which a read call must end (sorted, deduplicated by the interpreter)
    pub cuts: Vec<u32>,
    /// indices of read calls that return ErrorKind::Interrupted instead of data
    pub interrupts: Vec<u16>,
}

// ---------------------------------------------------------------------------------------------
// The delivering source
// ---------------------------------------------------------------------------------------------

#[derive(Default)]
pub struct Stats {
    pub calls: usize,
    pub interrupted: usize,
    pub data_calls: usize,
    pub buf_len_first: usize,
    pub delivered: usize,
}

pub struct Source {
    data: Vec<u8>,
    pos: usize,
    cuts: Vec<usize>,
    interrupts: Vec<usize>,
    consecutive: usize,
    pub stats: Rc<RefCell<Stats>>,
}

impl Source {
    pub fn new(data: &[u8], cuts: &[u32], interrupts: &[u16]) -> (Self, Rc<RefCell<Stats>>) {
        let mut c: Vec<usize> = cuts.iter().map(|&x| x as usize).filter(|&x| x > 0 && x < data.len()).collect();
        c.sort_unstable();
        c.dedup();
        let stats = Rc::new(RefCell::new(Stats::default()));
        (
            Self { data: data.to_vec(), pos: 0, cuts: c, interrupts: interrupts.iter().map(|&x| x as usize).collect(), consecutive: 0, stats: stats.clone() },
            stats,
        )
    }
}

impl Read for Source {
    fn read(&mut self, buf: &mut [u8]) -> std::io::Result<usize> {
        let mut s = self.stats.borrow_mut();
        let call = s.calls;
        s.calls += 1;
        if s.buf_len_first == 0 {
            s.buf_len_first = buf.len();
        }
        // at most 3 Interrupted in a row, so that a retrying reader always terminates
        if self.interrupts.contains(&call) && self.consecutive < 3 {
            self.consecutive += 1;
            s.interrupted += 1;
            return Err(std::io::Error::new(std::io::ErrorKind::Interrupted, "interrupted (injected)"));
        }
        self.consecutive = 0;
        if self.pos >= self.data.len() || buf.is_empty() {
            return Ok(0);
        }
        let next_cut = self.cuts.iter().cloned().find(|&c| c > self.pos).unwrap_or(self.data.len());
        let n = (next_cut - self.pos).min(buf.len());
        buf[..n].copy_from_slice(&self.data[self.pos..self.pos + n]);
        self.pos += n;
        s.data_calls += 1;
        s.delivered += n;
        Ok(n)
    }
}

// ---------------------------------------------------------------------------------------------
// Running a script against the library
// ---------------------------------------------------------------------------------------------

fn read_int(r: &mut Reader, ty: Ty) -> String {
    match ty {
        Ty::I8 => r.read::<i8>().to_string(),
        Ty::I16 => r.read::<i16>().to_string(),
        Ty::I32 => r.read::<i32>().to_string(),
        Ty::I64 => r.read::<i64>().to_string(),
        Ty::I128 => r.read::<i128>().to_string(),
        Ty::Isize => r.read::<isize>().to_string(),
        Ty::U8 => r.read::<u8>().to_string(),
        Ty::U16 => r.read::<u16>().to_string(),
        Ty::U32 => r.read::<u32>().to_string(),
        Ty::U64 => r.read::<u64>().to_string(),
        Ty::U128 => r.read::<u128>().to_string(),
        Ty::Usize => r.read::<usize>().to_string(),
    }
}

fn read_vec(r: &mut Reader, ty: Ty, n: usize) -> String {
    fn j<T: ToString>(v: Vec<T>) -> String {
        v.iter().map(|x| x.to_string()).collect::<Vec<_>>().join(",")
    }
    match ty {
        Ty::I8 => j(r.read_vec::<i8>(n)),
        Ty::I16 => j(r.read_vec::<i16>(n)),
        Ty::I32 => j(r.read_vec::<i32>(n)),
        Ty::I64 => j(r.read_vec::<i64>(n)),
        Ty::I128 => j(r.read_vec::<i128>(n)),
        Ty::Isize => j(r.read_vec::<isize>(n)),
        Ty::U8 => j(r.read_vec::<u8>(n)),
        Ty::U16 => j(r.read_vec::<u16>(n)),
        Ty::U32 => j(r.read_vec::<u32>(n)),
        Ty::U64 => j(r.read_vec::<u64>(n)),
        Ty::U128 => j(r.read_vec::<u128>(n)),
        Ty::Usize => j(r.read_vec::<usize>(n)),
    }
}

/// what the k-th tuple component is
#[derive(Clone, Copy, PartialEq, Debug)]
pub enum Comp {
    Int(Ty),
    Word,
    Char,
}
pub const TUPLE: [Comp; 8] =
    [Comp::Int(Ty::I32), Comp::Word, Comp::Int(Ty::U8), Comp::Int(Ty::I64), Comp::Char, Comp::Int(Ty::U128), Comp::Int(Ty::I16), Comp::Int(Ty::Usize)];

fn read_tuple(r: &mut Reader, k: usize) -> String {
    match k {
        2 => {
            let t: (i32, String) = r.read();
            format!("{}|{}", t.0, t.1)
        }
        3 => {
            let t: (i32, String, u8) = r.read();
            format!("{}|{}|{}", t.0, t.1, t.2)
        }
        4 => {
            let t: (i32, String, u8, i64) = r.read();
            format!("{}|{}|{}|{}", t.0, t.1, t.2, t.3)
        }
        5 => {
            let t: (i32, String, u8, i64, char) = r.read();
            format!("{}|{}|{}|{}|{}", t.0, t.1, t.2, t.3, t.4)
        }
        6 => {
            let t: (i32, String, u8, i64, char, u128) = r.read();
            format!("{}|{}|{}|{}|{}|{}", t.0, t.1, t.2, t.3, t.4, t.5)
        }
        7 => {
            let t: (i32, String, u8, i64, char, u128, i16) = r.read();
            format!("{}|{}|{}|{}|{}|{}|{}", t.0, t.1, t.2, t.3, t.4, t.5, t.6)
        }
        _ => {
            let t: (i32, String, u8, i64, char, u128, i16, usize) = r.read();
            format!("{}|{}|{}|{}|{}|{}|{}|{}", t.0, t.1, t.2, t.3, t.4, t.5, t.6, t.7)
        }
    }
}

pub fn run_library(input: &[u8], script: &[R], cuts: &[u32], interrupts: &[u16]) -> (Vec<String>, Rc<RefCell<Stats>>) {
    let (src, stats) = Source::new(input, cuts, interrupts);
    let mut r = Reader::new(Box::new(src));
    let mut out = Vec::with_capacity(script.len());
    for op in script {
        out.push(match op {
            R::Int(ty) => format!("int:{}", read_int(&mut r, *ty)),
            R::Word => format!("word:{}", r.read::<String>()),
            R::Char => format!("char:{}", r.read::<char>()),
            R::Line => format!("line:{:?}", r.read_line()),
            R::Lines => format!("lines:{:?}", r.read_lines()),
            R::IsEof => format!("eof:{}", r.is_eof()),
            R::VecOf(ty, n) => format!("vec:{}", read_vec(&mut r, *ty, *n as usize)),
            R::VecWords(n) => format!("vec:{}", r.read_vec::<String>(*n as usize).join(",")),
            R::Tuple(k) => format!("tuple:{}", read_tuple(&mut r, *k as usize)),
        });
    }
    (out, stats)
}

// ---------------------------------------------------------------------------------------------
// Oracle (a): independent parser over the byte slice
// ---------------------------------------------------------------------------------------------

pub struct Parser<'a> {
    b: &'a [u8],
    p: usize,
}

impl<'a> Parser<'a> {
    pub fn new(b: &'a [u8]) -> Self {
        Self { b, p: 0 }
    }
    fn skip_ws(&mut self) {
        while self.p < self.b.len() && self.b[self.p].is_ascii_whitespace() {
            self.p += 1;
        }
    }
    fn token(&mut self) -> Option<&'a str> {
        self.skip_ws();
        let s = self.p;
        while self.p < self.b.len() && !self.b[self.p].is_ascii_whitespace() {
            self.p += 1;
        }
        if s == self.p {
            None
        } else {
            std::str::from_utf8(&self.b[s..self.p]).ok()
        }
    }
    fn int(&mut self, ty: Ty) -> Option<String> {
        let t = self.token()?;
        Some(match ty {
            Ty::I8 => t.parse::<i8>().ok()?.to_string(),
            Ty::I16 => t.parse::<i16>().ok()?.to_string(),
            Ty::I32 => t.parse::<i32>().ok()?.to_string(),
            Ty::I64 => t.parse::<i64>().ok()?.to_string(),
            Ty::I128 => t.parse::<i128>().ok()?.to_string(),
            Ty::Isize => t.parse::<isize>().ok()?.to_string(),
            Ty::U8 => t.parse::<u8>().ok()?.to_string(),
            Ty::U16 => t.parse::<u16>().ok()?.to_string(),
            Ty::U32 => t.parse::<u32>().ok()?.to_string(),
            Ty::U64 => t.parse::<u64>().ok()?.to_string(),
            Ty::U128 => t.parse::<u128>().ok()?.to_string(),
            Ty::Usize => t.parse::<usize>().ok()?.to_string(),
        })
    }
    fn ch(&mut self) -> Option<char> {
        self.skip_ws();
        if self.p < self.b.len() {
            self.p += 1;
            Some(self.b[self.p - 1] as char)
        } else {
            None
        }
    }
    /// a line runs up to the next LF; one CR directly before that LF belongs to the terminator;
    /// without LF the rest of the input is the (unterminated) last line; nothing left => None
    fn line(&mut self) -> Option<String> {
        if self.p >= self.b.len() {
            return None;
        }
        let rest = &self.b[self.p..];
        match rest.iter().position(|&c| c == b'\n') {
            Some(k) => {
                self.p += k + 1;
                let mut l = &rest[..k];
                if l.last() == Some(&b'\r') {
                    l = &l[..l.len() - 1];
                }
                Some(String::from_utf8_lossy(l).into_owned())
            }
            None => {
                self.p = self.b.len();
                Some(String::from_utf8_lossy(rest).into_owned())
            }
        }
    }
    /// None = the script asks for something the input does not contain (outside the domain)
    pub fn run(&mut self, script: &[R]) -> Option<Vec<String>> {
        let mut out = Vec::new();
        for op in script {
            out.push(match op {
                R::Int(ty) => format!("int:{}", self.int(*ty)?),
                R::Word => format!("word:{}", self.token()?),
                R::Char => format!("char:{}", self.ch()?),
                R::Line => format!("line:{:?}", self.line()),
                R::Lines => {
                    let mut v = Vec::new();
                    while let Some(l) = self.line() {
                        v.push(l);
                    }
                    format!("lines:{:?}", v)
                }
                R::IsEof => {
                    self.skip_ws();
                    format!("eof:{}", self.p >= self.b.len())
                }
                R::VecOf(ty, n) => {
                    let mut v = Vec::new();
                    for _ in 0..*n {
                        v.push(self.int(*ty)?);
                    }
                    format!("vec:{}", v.join(","))
                }
                R::VecWords(n) => {
                    let mut v = Vec::new();
                    for _ in 0..*n {
                        v.push(self.token()?.to_string());
                    }
                    format!("vec:{}", v.join(","))
                }
                R::Tuple(k) => {
                    let mut v = Vec::new();
                    for c in &TUPLE[..*k as usize] {
                        v.push(match c {
                            Comp::Int(ty) => self.int(*ty)?,
                            Comp::Word => self.token()?.to_string(),
                            Comp::Char => self.ch()?.to_string(),
                        });
                    }
                    format!("tuple:{}", v.join("|"))
                }
            });
        }
        Some(out)
    }
}

// ---------------------------------------------------------------------------------------------
// Interpreter
// ---------------------------------------------------------------------------------------------

fn kind_of(op: &R) -> &'static str {
    match op {
        R::Int(_) => "int",
        R::Word => "string",
        R::Char => "char",
        R::Line => "read_line",
        R::Lines => "read_lines",
        R::IsEof => "is_eof",
        R::VecOf(..) | R::VecWords(_) => "read_vec",
        R::Tuple(_) => "tuple",
    }
}

fn show(b: &str) -> String {
    let s = format!("{:?}", b);
    if s.len() > 300 {
        format!("{}…({} bytes)", &s[..300], b.len())
    } else {
        s
    }
}

/// Very many refills on one reader: `reps` repetitions of "12 -7 word\n 3\r\n", delivered `chunk` bytes per read call (more than
/// 65536 read calls for reps >= 6000 at chunk 1 - counters that wrap at 16 bits).
#[derive(Clone, Debug, Hash, Serialize, Deserialize, PartialEq)]
pub struct Many {
    pub reps: u32,
    pub chunk: u8,
}

pub fn run_many(m: &Many) -> CaseResult {
    let unit = "12 -7 word\n 3\r\n";
    let reps = m.reps.min(40_000) as usize;
    let input = unit.repeat(reps);
    let chunk = m.chunk.max(1) as usize;
    let cuts: Vec<u32> = (1..input.len() / chunk + 1).map(|k| (k * chunk) as u32).collect();
    let mut script = Vec::with_capacity(reps * 4 + 1);
    for k in 0..reps {
        script.push(R::Int(if k % 2 == 0 { Ty::U8 } else { Ty::I64 }));
        script.push(R::Tuple(2));
        script.push(R::Int(Ty::Usize));
        if k % 3 == 0 {
            script.push(R::Line);
        }
    }
    script.push(R::IsEof);
    let mut st = CaseStats::default();
    let want = Parser::new(input.as_bytes()).run(&script).expect("the constructed script is valid");
    let (got, stats) = run_library(input.as_bytes(), &script, &cuts, &[]);
    if let Some(k) = got.iter().zip(want.iter()).position(|(g, w)| g != w) {
        return Err(Violation::new(
            format!("parser/{}", kind_of(&script[k])),
            format!("{:?}: script step {} ({:?}), after {} read calls on the same reader, returned {}, the bytes say {}", m, k, script[k], stats.borrow().calls, got[k], want[k]),
        ));
    }
    vensure!(got.len() == want.len(), "parser/length", "{:?}: {} results for {} script steps", m, got.len(), want.len());
    st.nontrivial = stats.borrow().calls > 65_536;
    if st.nontrivial {
        st.label("more-than-65536-read-calls-on-one-reader");
    }
    Ok(st)
}

pub fn run_case(c: &Case) -> CaseResult {
    let mut st = CaseStats::default();
    let input = c.input.as_bytes();
    st.size = input.len() as u64;
    let want = match Parser::new(input).run(&c.script) {
        Some(w) => w,
        None => {
            // the generator guarantees valid scripts; shrinking may produce an invalid one: not a failure
            st.label("out-of-domain-script-skipped");
            return Ok(st);
        }
    };
    let (got, stats) = run_library(input, &c.script, &c.cuts, &c.interrupts);
    for (k, (g, w)) in got.iter().zip(want.iter()).enumerate() {
        if g != w {
            return Err(Violation::new(
                format!("parser/{}", kind_of(&c.script[k])),
                format!(
                    "input {} script step {} ({:?}) under the generated delivery returned {}, the bytes say {}  [cuts {:?}, interrupts {:?}]",
                    show(&c.input), k, c.script[k], g, w, &c.cuts[..c.cuts.len().min(20)], c.interrupts
                ),
            ));
        }
    }
    let (whole, _) = run_library(input, &c.script, &[], &[]);
    for (k, (g, w)) in got.iter().zip(whole.iter()).enumerate() {
        if g != w {
            return Err(Violation::new(
                format!("delivery/{}", kind_of(&c.script[k])),
                format!(
                    "input {} script step {} ({:?}): whole-buffer delivery returned {}, the generated delivery {}",
                    show(&c.input), k, c.script[k], w, g
                ),
            ));
        }
    }
    for (k, (g, w)) in whole.iter().zip(want.iter()).enumerate() {
        if g != w {
            return Err(Violation::new(
                format!("parser-whole/{}", kind_of(&c.script[k])),
                format!("input {} script step {} ({:?}) under whole-buffer delivery returned {}, the bytes say {}", show(&c.input), k, c.script[k], g, w),
            ));
        }
    }
    // classification
    let s = stats.borrow();
    let buf = s.buf_len_first.max(1);
    let mut cuts: Vec<usize> = c.cuts.iter().map(|&x| x as usize).filter(|&x| x > 0 && x < input.len()).collect();
    cuts.sort_unstable();
    cuts.dedup();
    let mut split_token = false;
    for &k in &cuts {
        let (a, b) = (input[k - 1], input[k]);
        if !a.is_ascii_whitespace() && !b.is_ascii_whitespace() {
            split_token = true;
            if a == b'-' {
                st.label("cut-between-sign-and-digits");
            }
        }
        if a == b'\r' && b == b'\n' {
            st.label("cut-between-CR-and-LF");
            split_token = true;
        }
    }
    if split_token {
        st.label("cut-inside-token-or-CRLF");
        st.nontrivial = true;
    }
    if s.interrupted > 0 {
        st.label("interrupted-read");
        if s.delivered >= input.len() && s.interrupted > 0 && c.interrupts.iter().any(|&i| (i as usize) < s.data_calls + s.interrupted) {
            st.nontrivial = true;
        }
    }
    if input.len() > buf {
        st.label("input-longer-than-buffer");
        // a token or CRLF straddles a multiple of the buffer size under full-size reads
        let mut k = buf;
        while k < input.len() {
            if !input[k - 1].is_ascii_whitespace() && !input[k].is_ascii_whitespace() || (input[k - 1] == b'\r' && input[k] == b'\n') {
                st.label("token-or-CRLF-straddles-buffer-boundary");
                st.nontrivial = true;
            }
            k += buf;
        }
    }
    let has_line = c.script.iter().any(|o| matches!(o, R::Line | R::Lines));
    let has_tok = c.script.iter().any(|o| !matches!(o, R::Line | R::Lines | R::IsEof));
    if has_line && has_tok {
        st.label("mixed-token-and-line-script");
    }
    if c.input.ends_with('\r') {
        st.label("input-ends-with-lone-CR");
    }
    Ok(st)
}

// ---------------------------------------------------------------------------------------------
// Generators
// ---------------------------------------------------------------------------------------------

fn int_text(ty: Ty) -> BoxedStrategy<String> {
    fn g<T: std::fmt::Display + std::fmt::Debug + Copy + 'static>(min: T, max: T, anyv: BoxedStrategy<T>, signed: bool) -> BoxedStrategy<String> {
        let specials: Vec<String> = {
            let mut v = vec![min.to_string(), max.to_string(), "0".to_string(), "1".to_string(), "00".to_string(), "007".to_string(), "10".to_string(), "9".to_string()];
            if signed {
                v.push("-0".to_string());
                v.push("-1".to_string());
                v.push("-007".to_string());
                v.push("-9".to_string());
                v.push("-10".to_string());
            }
            v
        };
        prop_oneof![
            3 => prop::sample::select(specials),
            4 => anyv.prop_map(|x| x.to_string()),
            // leading zeros in front of a random value
            1 => (any::<u8>()).prop_map(move |z| format!("{}{}", "0".repeat(1 + (z % 3) as usize), z % 100)),
        ]
        .boxed()
    }
    fn spread<T>(full: BoxedStrategy<T>, small: BoxedStrategy<T>) -> BoxedStrategy<T>
    where
        T: std::fmt::Debug + 'static,
    {
        prop_oneof![full, small].boxed()
    }
    match ty {
        Ty::I8 => g(i8::MIN, i8::MAX, any::<i8>().boxed(), true),
        Ty::I16 => g(i16::MIN, i16::MAX, spread(any::<i16>().boxed(), (-100i16..100).boxed()), true),
        Ty::I32 => g(i32::MIN, i32::MAX, spread(any::<i32>().boxed(), (-1000i32..1000).boxed()), true),
        Ty::I64 => g(i64::MIN, i64::MAX, spread(any::<i64>().boxed(), (-1000i64..1000).boxed()), true),
        Ty::I128 => g(i128::MIN, i128::MAX, spread(any::<i128>().boxed(), (-1000i128..1000).boxed()), true),
        Ty::Isize => g(isize::MIN, isize::MAX, spread(any::<isize>().boxed(), (-1000isize..1000).boxed()), true),
        Ty::U8 => g(u8::MIN, u8::MAX, any::<u8>().boxed(), false),
        Ty::U16 => g(u16::MIN, u16::MAX, spread(any::<u16>().boxed(), (0u16..100).boxed()), false),
        Ty::U32 => g(u32::MIN, u32::MAX, spread(any::<u32>().boxed(), (0u32..1000).boxed()), false),
        Ty::U64 => g(u64::MIN, u64::MAX, spread(any::<u64>().boxed(), (0u64..1000).boxed()), false),
        Ty::U128 => g(u128::MIN, u128::MAX, spread(any::<u128>().boxed(), (0u128..1000).boxed()), false),
        Ty::Usize => g(usize::MIN, usize::MAX, spread(any::<usize>().boxed(), (0usize..1000).boxed()), false),
    }
}

fn ty() -> impl Strategy<Value = Ty> {
    prop::sample::select(TYS.to_vec())
}

fn word() -> impl Strategy<Value = String> {
    // long words (beyond the 40 characters of the longest integer token) leave bytes in the reader's buffer that a later, shorter
    // refill does not overwrite; digits make stale bytes look like a continuation of a number
    prop_oneof![8 => "[!-~]{1,8}", 2 => "[!-~]{9,40}", 2 => "-[a-z]{0,3}", 2 => "[0-9]{1,5}[a-z]", 1 => "[0-9]{41,90}", 1 => "[!-~]{41,120}"]
}

fn sep() -> impl Strategy<Value = String> {
    prop_oneof![
        6 => Just(" ".to_string()),
        3 => Just("\n".to_string()),
        2 => Just("\r\n".to_string()),
        1 => Just("\t".to_string()),
        1 => Just("\r".to_string()),
        2 => prop::collection::vec(prop::sample::select(vec![" ", "\t", "\n", "\r", "\r\n"]), 2..5).prop_map(|v| v.concat()),
    ]
}

/// one script step together with the text it consumes (token segments: text excludes the separators)
#[derive(Clone, Debug)]
enum Seg {
    Toks(R, Vec<String>),
    Line(String, String),
    IsEof,
}

fn comp_text(c: Comp) -> BoxedStrategy<String> {
    match c {
        Comp::Int(t) => int_text(t),
        Comp::Word => word().boxed(),
        Comp::Char => "[!-~]".boxed(),
    }
}

fn seg() -> impl Strategy<Value = Seg> {
    let line_content = prop_oneof![
        3 => Just(String::new()),
        4 => "[ -~]{0,12}",
        2 => "[ -~\t]{0,6}\r?[ -~]{0,6}\r{0,2}",
        1 => "\r{1,3}",
    ];
    let line_term = prop_oneof![3 => Just("\n".to_string()), 2 => Just("\r\n".to_string())];
    prop_oneof![
        30 => ty().prop_flat_map(|t| int_text(t).prop_map(move |s| Seg::Toks(R::Int(t), vec![s]))),
        12 => word().prop_map(|s| Seg::Toks(R::Word, vec![s])),
        // a word read char by char is several Char segments; here: one char token
        6 => "[!-~]".prop_map(|s| Seg::Toks(R::Char, vec![s])),
        16 => (line_content, line_term).prop_map(|(c, t)| Seg::Line(c, t)),
        5 => Just(Seg::IsEof),
        6 => (ty(), 0u8..5).prop_flat_map(|(t, n)| prop::collection::vec(int_text(t), n as usize).prop_map(move |v| Seg::Toks(R::VecOf(t, n), v))),
        2 => (0u8..4).prop_flat_map(|n| prop::collection::vec(word(), n as usize).prop_map(move |v| Seg::Toks(R::VecWords(n), v))),
        6 => (2u8..=8).prop_flat_map(|k| {
            let parts: Vec<BoxedStrategy<String>> = TUPLE[..k as usize].iter().map(|c| comp_text(*c)).collect();
            parts.prop_map(move |v| Seg::Toks(R::Tuple(k), v))
        }),
    ]
}

/// Assemble (input, script) from segments: token segments are preceded by a separator run (mandatory
/// between two adjacent tokens), line segments contribute content + terminator.
fn assemble(segs: Vec<Seg>, seps: Vec<String>, tail: u8) -> (String, Vec<R>) {
    let mut input = String::new();
    let mut script = Vec::new();
    let mut si = 0usize;
    let mut need_sep = false; // previous emitted text ended in a token
    let mut next_sep = |force: bool| -> String {
        let s = seps.get(si % seps.len().max(1)).cloned().unwrap_or_else(|| " ".to_string());
        si += 1;
        if force || si % 3 != 0 {
            s
        } else {
            String::new()
        }
    };
    for s in segs {
        match s {
            Seg::Toks(r, toks) => {
                for t in toks {
                    let sp = next_sep(need_sep);
                    input.push_str(&sp);
                    input.push_str(&t);
                    need_sep = true;
                }
                script.push(r);
            }
            Seg::Line(c, t) => {
                // after a token, read_line returns the rest of that line: content follows directly
                if need_sep && c.starts_with(|ch: char| !ch.is_ascii_whitespace()) {
                    input.push(' ');
                }
                input.push_str(&c);
                input.push_str(&t);
                need_sep = false;
                script.push(R::Line);
            }
            Seg::IsEof => script.push(R::IsEof),
        }
    }
    // tail: how the input ends
    match tail % 8 {
        0 => {}
        1 => input.push('\n'),
        2 => input.push_str("\r\n"),
        3 => {
            input.push_str(" x\r");
            script.push(R::Line);
        }
        4 => {
            input.push_str("\nlast line without terminator");
            script.push(R::Lines);
        }
        5 => {
            input.push_str("\n\n\r\n");
            script.push(R::Lines);
        }
        6 => {
            input.push_str("  \n ");
            script.push(R::IsEof);
        }
        _ => {
            input.push_str("\nabc\r");
            script.push(R::Line);
            script.push(R::Line);
            script.push(R::Line);
        }
    }
    (input, script)
}

pub fn text_and_script(max_segs: usize) -> impl Strategy<Value = (String, Vec<R>)> {
    (prop::collection::vec(seg(), 0..max_segs), prop::collection::vec(sep(), 1..6), any::<u8>()).prop_map(|(segs, seps, tail)| assemble(segs, seps, tail))
}

/// targeted cut positions for an input: flags select families, `extra` are raw positions (scaled into the input)
fn make_cuts(input: &[u8], flags: u8, extra: &[u16]) -> Vec<u32> {
    let n = input.len();
    let mut cuts: Vec<u32> = Vec::new();
    if n < 2 {
        return cuts;
    }
    if flags & 1 != 0 {
        // every byte alone
        cuts.extend(1..n as u32);
        return cuts;
    }
    for k in 1..n {
        let (a, b) = (input[k - 1], input[k]);
        if flags & 2 != 0 && a == b'-' {
            cuts.push(k as u32);
        }
        if flags & 4 != 0 && a == b'\r' {
            cuts.push(k as u32);
        }
        if flags & 8 != 0 && !a.is_ascii_whitespace() && !b.is_ascii_whitespace() && (k * 7 + flags as usize) % 3 == 0 {
            cuts.push(k as u32);
        }
        if flags & 16 != 0 && a.is_ascii_whitespace() != b.is_ascii_whitespace() {
            cuts.push(k as u32);
        }
    }
    for &e in extra {
        cuts.push(((e as usize * n) >> 16) as u32);
    }
    cuts.sort_unstable();
    cuts.dedup();
    cuts
}

pub fn case(max_segs: usize) -> impl Strategy<Value = Case> {
    (
        text_and_script(max_segs),
        prop_oneof![Just(1u8), any::<u8>().prop_map(|f| f & !1), Just(0u8)],
        prop::collection::vec(any::<u16>(), 0..6),
        prop_oneof![3 => Just(vec![]), 2 => prop::collection::vec(0u16..12, 1..5), 1 => prop::collection::vec(0u16..200, 1..8)],
    )
        .prop_map(|((input, script), flags, extra, interrupts)| {
            let cuts = make_cuts(input.as_bytes(), flags, &extra);
            Case { input, script, cuts, interrupts }
        })
}

/// Long inputs: filler, then an interesting (input, script) placed so that a chosen byte of it lands on
/// offset k*buf + delta, delta in {-2..=2}; delivered with full-size reads plus a few cuts.
pub fn long_case(buf: usize) -> impl Strategy<Value = Case> {
    (text_and_script(6), 1usize..=2, -2i32..=2, 0u16..u16::MAX, prop::collection::vec(any::<u16>(), 0..4), prop_oneof![Just(vec![]), prop::collection::vec(0u16..6, 1..3)])
        .prop_map(move |((text, script), k, delta, anchor, extra, interrupts)| {
            // anchor byte inside `text` that should sit at k*buf+delta: preferably a CR, LF, minus sign or the
            // first/last byte of a token (2 of 3 cases), otherwise any byte
            let tb = text.as_bytes();
            let special: Vec<usize> = (0..tb.len())
                .filter(|&i| matches!(tb[i], b'\r' | b'\n' | b'-') || (i > 0 && tb[i - 1].is_ascii_whitespace() != tb[i].is_ascii_whitespace()))
                .collect();
            let a = if text.is_empty() {
                0
            } else if !special.is_empty() && anchor % 3 != 0 {
                special[(anchor as usize / 3) % special.len()]
            } else {
                (anchor as usize * text.len()) >> 16
            };
            let target = (k * buf) as i64 + delta as i64 - a as i64;
            let target = target.max(0) as usize;
            // filler: lines of digits read by one read_lines? No: keep the script simple — filler is a run of
            // small integer tokens consumed by read_vec::<u32> calls of at most 255 tokens each
            let mut input = String::with_capacity(target + text.len() + 16);
            let mut full_script = Vec::new();
            let mut tokens = 0usize;
            while input.len() + 4 <= target {
                input.push_str(if tokens % 5 == 4 { "123\n" } else { "777 " });
                tokens += 1;
            }
            while input.len() < target {
                input.push(' ');
            }
            let mut left = tokens;
            while left > 0 {
                let n = left.min(255);
                full_script.push(R::VecOf(Ty::U32, n as u8));
                left -= n;
            }
            input.push_str(&text);
            full_script.extend(script);
            let mut cuts: Vec<u32> = extra.iter().map(|&e| ((e as usize * input.len()) >> 16) as u32).collect();
            cuts.sort_unstable();
            Case { input, script: full_script, cuts, interrupts }
        })
}

/// All 2^(len-1) chunkings of a short input (E2)
pub fn all_chunkings<'a>(input: &'a str, script: &'a [R]) -> impl Iterator<Item = Case> + 'a {
    let n = input.len();
    let total: u64 = if n <= 1 { 1 } else { 1u64 << (n - 1) };
    (0..total).map(move |mask| {
        let cuts: Vec<u32> = (1..n as u32).filter(|&k| (mask >> (k - 1)) & 1 == 1).collect();
        Case { input: input.to_string(), script: script.to_vec(), cuts, interrupts: vec![] }
    })
}

/// fuzz bytes → Case: the text is drawn from a small alphabet so that tokens/separators are frequent,
/// the script is derived from the text by the reference tokenizer (always valid).
pub fn decode(data: &[u8]) -> Option<Case> {
    if data.len() < 4 {
        return None;
    }
    let nint = data[0] as usize % 4;
    let flags = data[1];
    let mode = data[2];
    let alphabet: &[u8] = b"0123456789- \n\r\tabz-91 \r\n";
    let body = &data[3 + nint.min(data.len() - 3)..];
    let text: Vec<u8> = body.iter().take(400).map(|&b| if b < 128 && (b == b'\n' || b == b'\r' || b == b' ' || (0x21..0x7f).contains(&b)) { b } else { alphabet[b as usize % alphabet.len()] }).collect();
    let input = String::from_utf8(text).ok()?;
    // derive a valid script
    let mut script = Vec::new();
    let mut p = 0usize;
    let b = input.as_bytes();
    let mut k = 0usize;
    while p < b.len() && script.len() < 64 {
        k += 1;
        let sel = (mode as usize + k * 7) % 5;
        if sel == 0 {
            script.push(R::Line);
            match b[p..].iter().position(|&c| c == b'\n') {
                Some(x) => p += x + 1,
                None => p = b.len(),
            }
            continue;
        }
        while p < b.len() && b[p].is_ascii_whitespace() {
            p += 1;
        }
        if p >= b.len() {
            break;
        }
        let s = p;
        while p < b.len() && !b[p].is_ascii_whitespace() {
            p += 1;
        }
        let tok = &input[s..p];
        if sel == 1 {
            script.push(R::Word);
        } else if tok.parse::<i64>().is_ok() && !tok.starts_with('+') {
            script.push(R::Int(if tok.parse::<u8>().is_ok() && sel == 2 { Ty::U8 } else if tok.parse::<i32>().is_ok() && sel == 3 { Ty::I32 } else { Ty::I64 }));
        } else {
            script.push(R::Word);
        }
    }
    script.push(if mode & 1 == 0 { R::IsEof } else { R::Lines });
    let extra: Vec<u16> = data[3..3 + nint.min(data.len() - 3)].iter().map(|&x| (x as u16) << 8).collect();
    let cuts = make_cuts(input.as_bytes(), flags, &extra);
    let interrupts = if mode & 0x30 == 0x30 { vec![(mode >> 6) as u16, 1 + (flags >> 5) as u16] } else { vec![] };
    Some(Case { input, script, cuts, interrupts })
}
