use c08::*;
use proptest::strategy::Strategy;
use vcore::{Ctx, SplitMix};

/// hand-picked short inputs with their scripts (≤ 12 bytes): all chunkings are enumerated
fn golden() -> Vec<(&'static str, Vec<R>)> {
    use Ty::*;
    vec![
        ("12 34", vec![R::Int(I32), R::Int(U8)]),
        ("-128 127", vec![R::Int(I8), R::Int(I8)]),
        ("-5\n-0 7", vec![R::Int(I64), R::Int(I16), R::Int(U64)]),
        ("a\r\nb\r\n", vec![R::Line, R::Line, R::Line]),
        ("a\r\nb", vec![R::Lines]),
        ("\nabc\r", vec![R::Line, R::Line, R::Line]),
        ("abc\r", vec![R::Lines]),
        ("x\r\r\ny", vec![R::Line, R::Line, R::Line]),
        ("\r\n\r\n", vec![R::Lines]),
        ("\n\n", vec![R::Line, R::Line, R::Line]),
        ("1\n\n2\n", vec![R::Int(U8), R::Line, R::Line, R::Line, R::Line]),
        ("7 \r\n x\ty ", vec![R::Int(Usize), R::Line, R::Word, R::Char, R::IsEof]),
        ("ab cd", vec![R::Char, R::Char, R::Word, R::IsEof]),
        ("  42  ", vec![R::IsEof, R::Int(I128), R::IsEof]),
        ("255 65535", vec![R::Int(U8), R::Int(U16)]),
        ("-32768\t0", vec![R::Int(I16), R::Int(U128)]),
        ("3 1 2 3", vec![R::Int(U8), R::VecOf(I32, 3)]),
        ("-1 w 9", vec![R::Tuple(3)]),
        ("1\r2\r3", vec![R::VecOf(U8, 3), R::IsEof]),
        ("1\r2\r3\r", vec![R::Line, R::Line]),
        ("\r", vec![R::Line, R::Line]),
        ("\r\r", vec![R::Line, R::Line]),
        ("q\r", vec![R::Char, R::Line, R::Line]),
        ("q \r", vec![R::Word, R::Line, R::Line]),
        ("5\r\n\r", vec![R::Int(U8), R::Lines]),
        ("-9\r\n-9", vec![R::Line, R::Int(I8)]),
        ("0007 -0", vec![R::Int(U16), R::Int(Isize)]),
        ("a b\nc", vec![R::Word, R::Line, R::Line, R::Line]),
        ("", vec![R::IsEof, R::Line, R::Lines]),
        (" ", vec![R::Line, R::Line]),
        ("\t\r\n ", vec![R::IsEof, R::Line]),
        ("--", vec![R::Word, R::IsEof]),
        ("1 2 3 4 5 6", vec![R::VecOf(U64, 6), R::Line]),
        ("x\ny\n", vec![R::VecWords(2), R::Line, R::Line]),
        ("k\r\n", vec![R::Char, R::Line, R::Line]),
        ("\r\nz", vec![R::Line, R::Char]),
    ]
}

fn main() {
    let mut ctx = Ctx::init("C08");
    ctx.rule(
        "A case is (input bytes, read script, delivery schedule). Inputs come from a grammar: decimal integer tokens of all 12 widths \
         (MIN, MAX, -0, leading zeros, random), printable-ASCII words, single chars, separated by runs of ' ', TAB, LF, CR, CRLF; lines \
         ended by LF / CRLF / nothing, empty lines, lone CRs, a lone trailing CR. Scripts (read::<int>, String, char, tuples to arity 8, \
         read_vec, read_line, read_lines, is_eof) are assembled together with the text, so every typed read finds a valid token. The \
         schedule is a set of stream offsets at which a read call must end (every byte alone; after every '-'; after every CR; inside \
         tokens; random) plus indices of read calls that return ErrorKind::Interrupted (at most 3 in a row), then honest EOF. A class of \
         long inputs (1-2x the discovered buffer size) places a byte of the interesting text at k*BUF+{-2..2}. For 36 short inputs all \
         2^(len-1) chunkings are enumerated. Oracles: an independent slice parser, and the same (input, script) under whole-buffer \
         delivery; any panic is a violation. Non-trivial = a token or a CR LF pair is split by a cut or straddles a buffer boundary, or an \
         Interrupted occurs. Distinct = distinct (build profile, sub-check, case).",
    );
    ctx.assume("separators are limited to ' ', TAB, LF, CR, CRLF; words are printable ASCII; scripts never read a typed token that is not there (DESIGN §6.5)");
    ctx.assume("the reference parser defines a line as: up to the next LF, one CR directly before that LF belongs to the terminator; an unterminated rest is the last line");
    ctx.replayer("reader-case", |v| run_case(&serde_json::from_value::<Case>(v.clone()).expect("case")));
    ctx.replayer("reader-many", |v| run_many(&serde_json::from_value::<Many>(v.clone()).expect("case")));
    ctx.begin();

    // buffer size, learnt from the length of the slice the reader hands to Read::read
    // (guarded: on a broken tree even this probe may panic; the regression replays above report it)
    let buf = vcore::catch(|| run_library(b"1", &[R::Int(Ty::U8)], &[], &[]).1.borrow().buf_len_first).unwrap_or(0);
    ctx.extra("discovered_reader_buffer_size", serde_json::json!(buf));
    println!("reader buffer size discovered: {}", buf);

    // E2: all chunkings of short inputs
    for (k, (input, script)) in golden().into_iter().enumerate() {
        if input.len() > 13 {
            continue;
        }
        let name = format!("all-chunkings-{:02}", k);
        let domain = format!("all {} chunkings of the {}-byte input {:?}", 1u64 << input.len().saturating_sub(1), input.len(), input);
        ctx.exhaustive(&name, "reader-case", &domain, true, all_chunkings(input, &script), run_case);
        // the same inputs with an Interrupted on each of the first read calls, byte-wise and whole delivery
        let mut extra = Vec::new();
        for i in 0..(input.len() as u16 + 2).min(8) {
            extra.push(Case { input: input.to_string(), script: script.clone(), cuts: vec![], interrupts: vec![i] });
            extra.push(Case { input: input.to_string(), script: script.clone(), cuts: (1..input.len() as u32).collect(), interrupts: vec![i, i + 1, i + 3] });
        }
        ctx.exhaustive(&format!("interrupts-{:02}", k), "reader-case", "Interrupted injected at each of the first 8 read calls, whole and byte-wise delivery", false, extra, run_case);
    }
    // generated short inputs of <= 11 bytes: all chunkings
    let mut rng: SplitMix = ctx.sub_rng("generated-chunkings");
    let mut n_gen = 0;
    let want_gen = ctx.n(30, 300);
    let mut tries = 0;
    while n_gen < want_gen && tries < 100_000 {
        tries += 1;
        let mut seed = [0u8; 32];
        seed[..8].copy_from_slice(&rng.next().to_le_bytes());
        let (input, script) = vcore::sample_one(&text_and_script(3), seed);
        if input.len() < 2 || input.len() > 11 {
            continue;
        }
        n_gen += 1;
        let name = format!("generated-chunkings-{:03}", n_gen);
        let domain = format!("all chunkings of generated input {:?}", input);
        ctx.exhaustive(&name, "reader-case", &domain, true, all_chunkings(&input, &script).collect::<Vec<_>>(), run_case);
    }

    // stale bytes: a long first chunk (a word of digits) leaves its tail in the reader's buffer; then the longest / shortest token of
    // every integer type arrives in a chunk of its own (or with 1..2 bytes more or less), so that what lies behind the valid part of
    // the buffer looks like more digits
    {
        let mut stale = Vec::new();
        for ty in TYS {
            let (mn, mx) = match ty {
                Ty::I8 => (i8::MIN.to_string(), i8::MAX.to_string()),
                Ty::I16 => (i16::MIN.to_string(), i16::MAX.to_string()),
                Ty::I32 => (i32::MIN.to_string(), i32::MAX.to_string()),
                Ty::I64 => (i64::MIN.to_string(), i64::MAX.to_string()),
                Ty::I128 => (i128::MIN.to_string(), i128::MAX.to_string()),
                Ty::Isize => (isize::MIN.to_string(), isize::MAX.to_string()),
                Ty::U8 => ("0".to_string(), u8::MAX.to_string()),
                Ty::U16 => ("0".to_string(), u16::MAX.to_string()),
                Ty::U32 => ("0".to_string(), u32::MAX.to_string()),
                Ty::U64 => ("0".to_string(), u64::MAX.to_string()),
                Ty::U128 => ("0".to_string(), u128::MAX.to_string()),
                Ty::Usize => ("0".to_string(), usize::MAX.to_string()),
            };
            for tok in [mn, mx] {
                for extra in [1usize, 2, 11, 50] {
                    for sep in [" ", "\n", "\r\n"] {
                        let w = "7".repeat(tok.len() + extra);
                        let input = format!("{}{}{}{}5\n", w, sep, tok, sep);
                        let t0 = (w.len() + sep.len()) as u32;
                        let t1 = t0 + tok.len() as u32;
                        for cuts in [vec![w.len() as u32, t0, t1], vec![t0, t1], vec![w.len() as u32, t0, t1 - 1, t1], vec![t0 - 1, t1 + 1], vec![w.len() as u32, t0, t0 + 1, t1]] {
                            stale.push(Case { input: input.clone(), script: vec![R::Word, R::Int(ty), R::Int(Ty::U8), R::IsEof], cuts, interrupts: vec![] });
                        }
                    }
                }
            }
        }
        ctx.exhaustive("shorter-chunk-after-a-longer-one", "reader-case", "a word of digits longer than the next token, then the minimum / maximum of each of the 12 integer types delivered in a chunk of its own (5 chunkings, 3 separators)", false, stale, run_case);
    }
    ctx.exhaustive(
        "many-refills-on-one-reader",
        "reader-many",
        "4000 / 7000 / 8000 / 13000 repetitions of a 17-byte unit delivered 1, 2 or 3 bytes per read call (68000 .. 119000 read calls on one reader)",
        false,
        vec![Many { reps: 4000, chunk: 1 }, Many { reps: 7000, chunk: 1 }, Many { reps: 13000, chunk: 3 }, Many { reps: 8000, chunk: 2 }],
        run_many,
    );
    ctx.prop_split("generated", "reader-case", ctx.n(6_000, 1_500_000), ctx.parts(), case(10).boxed(), run_case);
    ctx.prop_split("generated-short", "reader-case", ctx.n(6_000, 1_000_000), ctx.parts(), case(3).boxed(), run_case);
    if buf >= 1024 && buf <= (1 << 22) {
        ctx.prop_cfg("long-inputs-at-buffer-boundary", "reader-case", ctx.n(500, 8_000), 200, long_case(buf), run_case);
    } else {
        ctx.class("long-input-class-skipped-buffer-size-unusual", 1);
    }
    ctx.finish();
}
