//! Shared plumbing of the rlib verification harness: run context, evidence, replay files,
//! known findings, deterministic seeding and the proptest driver (engine E1) / enumerator driver (E2).
//!
//! A property binary is always: `Ctx::init` → register replayers → `begin` (handles `--replay` and the
//! committed regression tier) → sub-checks (`prop`, `exhaustive`, `bulk`) → `finish`.

use proptest::strategy::{Strategy, ValueTree};
use proptest::test_runner::{Config, RngAlgorithm, TestCaseError, TestError, TestRng, TestRunner};
use serde::Serialize;
use serde_json::{json, Value};
use std::cell::RefCell;
use std::collections::{BTreeMap, HashSet};
use std::fmt::Debug;
use std::hash::{Hash, Hasher};
use std::panic::{catch_unwind, AssertUnwindSafe};
use std::path::PathBuf;
use std::time::Instant;

pub use proptest;
pub use serde;
pub use serde_json;

#[derive(Clone, Copy, PartialEq, Eq, Debug)]
pub enum Tier {
    Quick,
    Thorough,
}

/// An oracle disagreement (or a library panic inside the documented domain).
#[derive(Debug, Clone)]
pub struct Violation {
    /// canonical, input-independent key of *what* failed (used for known-findings matching)
    pub sig: String,
    pub msg: String,
}

impl Violation {
    pub fn new(sig: impl Into<String>, msg: impl Into<String>) -> Self {
        Self { sig: sig.into(), msg: msg.into() }
    }
}

/// What the interpreter learnt about one case.
#[derive(Default, Debug, Clone)]
pub struct CaseStats {
    pub nontrivial: bool,
    pub labels: Vec<&'static str>,
    pub size: u64,
}

impl CaseStats {
    pub fn label(&mut self, l: &'static str) {
        if !self.labels.contains(&l) {
            self.labels.push(l);
        }
    }
}

pub type CaseResult = Result<CaseStats, Violation>;

#[macro_export]
macro_rules! vfail {
    ($sig:expr, $($arg:tt)*) => {
        return Err($crate::Violation::new($sig, format!($($arg)*)))
    };
}

#[macro_export]
macro_rules! vensure {
    ($cond:expr, $sig:expr, $($arg:tt)*) => {
        if !($cond) {
            return Err($crate::Violation::new($sig, format!($($arg)*)));
        }
    };
}

pub fn hash_of<T: Hash + ?Sized>(t: &T) -> u64 {
    // SipHash with fixed zero keys: deterministic across processes
    #[allow(deprecated)]
    let mut h = std::hash::SipHasher::new();
    t.hash(&mut h);
    h.finish()
}

pub fn splitmix64(x: &mut u64) -> u64 {
    *x = x.wrapping_add(0x9E3779B97F4A7C15);
    let mut z = *x;
    z = (z ^ (z >> 30)).wrapping_mul(0xBF58476D1CE4E5B9);
    z = (z ^ (z >> 27)).wrapping_mul(0x94D049BB133111EB);
    z ^ (z >> 31)
}

/// Small deterministic generator for enumerators that need "some" values without proptest
/// (never used for a decision that must shrink).
#[derive(Clone)]
pub struct SplitMix(pub u64);
impl SplitMix {
    pub fn next(&mut self) -> u64 {
        splitmix64(&mut self.0)
    }
    pub fn below(&mut self, n: u64) -> u64 {
        ((self.next() as u128 * n as u128) >> 64) as u64
    }
}

thread_local! {
    static LAST_PANIC: RefCell<Option<String>> = RefCell::new(None);
}

fn install_panic_hook() {
    std::panic::set_hook(Box::new(|info| {
        let msg = if let Some(s) = info.payload().downcast_ref::<&str>() {
            s.to_string()
        } else if let Some(s) = info.payload().downcast_ref::<String>() {
            s.clone()
        } else {
            "<non-string panic payload>".to_string()
        };
        let loc = info
            .location()
            .map(|l| format!("{}:{}", l.file(), l.line()))
            .unwrap_or_default();
        LAST_PANIC.with(|p| *p.borrow_mut() = Some(format!("{} at {}", msg, loc)));
    }));
}

/// Run `f`, turning a panic into `Err(message at file:line)`.
pub fn catch<R>(f: impl FnOnce() -> R) -> Result<R, String> {
    LAST_PANIC.with(|p| *p.borrow_mut() = None);
    match catch_unwind(AssertUnwindSafe(f)) {
        Ok(r) => Ok(r),
        Err(_) => Err(LAST_PANIC
            .with(|p| p.borrow_mut().take())
            .unwrap_or_else(|| "panic (no message)".into())),
    }
}

/// Run an interpreter; a panic that escapes it is a violation (library panicked inside the domain).
pub fn guarded(f: impl FnOnce() -> CaseResult) -> CaseResult {
    match catch(f) {
        Ok(r) => r,
        Err(m) => {
            // signature: the panic site without the message's variable part
            let site = m.rsplit(" at ").next().unwrap_or("").to_string();
            if !site.starts_with('/') || site.contains("/verif/") {
                // the panic site is harness code (workspace-relative path): a harness bug, never a violation
                return Err(Violation::new(format!("harness-panic@{}", site), format!("harness panic: {}", m)));
            }
            Err(Violation::new(format!("panic@{}", short_site(&site)), format!("panic: {}", m)))
        }
    }
}

fn short_site(s: &str) -> String {
    // keep "rlib/<crate>/src/file.rs:line" if present
    match s.find("rlib/") {
        Some(i) => s[i..].to_string(),
        None => s.rsplit('/').next().unwrap_or(s).to_string(),
    }
}

#[derive(Debug, Clone)]
struct Known {
    sig: String,
    text: String,
    printed: bool,
}

#[derive(Default, Serialize, Clone)]
struct SubReport {
    name: String,
    engine: String,
    evaluations: u64,
    distinct_nontrivial: u64,
    exhaustive: bool,
    #[serde(skip_serializing_if = "Option::is_none")]
    domain: Option<String>,
}

type Replayer = Box<dyn Fn(&Value) -> CaseResult>;

pub struct Ctx {
    pub id: String,
    pub tier: Tier,
    pub seed: u64,
    pub profile: String,
    root: PathBuf,
    start: Instant,
    evaluations: u64,
    nontrivial: HashSet<u64>,
    bulk_nontrivial: u64,
    classes: BTreeMap<String, u64>,
    samples: Vec<Value>,
    largest: Option<(u64, Value)>,
    subs: Vec<SubReport>,
    violations: u64,
    known: Vec<Known>,
    excluded_known: u64,
    assumptions: Vec<String>,
    rule: String,
    extra: BTreeMap<String, Value>,
    replayers: Vec<(String, Replayer)>,
    replay_arg: Option<PathBuf>,
    evidence_out: PathBuf,
    inconclusive: Vec<String>,
    only_sub: Option<String>,
    shard: Option<(u64, u64)>,
}

impl Ctx {
    pub fn init(id: &str) -> Ctx {
        install_panic_hook();
        let root = PathBuf::from(std::env::var("VERIF_ROOT").unwrap_or_else(|_| "/verif".into()));
        let tier = match std::env::var("VERIF_TIER").as_deref() {
            Ok("thorough") => Tier::Thorough,
            _ => Tier::Quick,
        };
        let seed = std::env::var("VERIF_SEED").ok().and_then(|s| s.trim().parse::<i64>().ok()).unwrap_or(1) as u64;
        let profile = std::env::var("VERIF_PROFILE").unwrap_or_else(|_| "checked".into());
        let mut replay_arg = None;
        let mut only_sub = None;
        let args: Vec<String> = std::env::args().collect();
        let mut i = 1;
        while i < args.len() {
            match args[i].as_str() {
                "--replay" => {
                    replay_arg = Some(PathBuf::from(&args[i + 1]));
                    i += 1;
                }
                "--sub" => {
                    only_sub = Some(args[i + 1].clone());
                    i += 1;
                }
                _ => {}
            }
            i += 1;
        }
        let evidence_out = std::env::var("VERIF_EVIDENCE_OUT")
            .map(PathBuf::from)
            .unwrap_or_else(|_| root.join("evidence").join(format!("{}.json", id)));
        let mut known = Vec::new();
        if let Ok(text) = std::fs::read_to_string(root.join("known_findings.txt")) {
            for line in text.lines() {
                let line = line.trim();
                if let Some(rest) = line.strip_prefix("known:") {
                    let rest = rest.trim();
                    let mut parts = rest.splitn(3, ' ');
                    let p = parts.next().unwrap_or("");
                    let s = parts.next().unwrap_or("");
                    let t = parts.next().unwrap_or("");
                    if p == format!("property={}", id) {
                        if let Some(sig) = s.strip_prefix("sig=") {
                            known.push(Known { sig: sig.to_string(), text: t.to_string(), printed: false });
                        }
                    }
                }
            }
        }
        Ctx {
            id: id.to_string(),
            tier,
            seed,
            profile,
            root,
            start: Instant::now(),
            evaluations: 0,
            nontrivial: HashSet::new(),
            bulk_nontrivial: 0,
            classes: BTreeMap::new(),
            samples: Vec::new(),
            largest: None,
            subs: Vec::new(),
            violations: 0,
            known,
            excluded_known: 0,
            assumptions: Vec::new(),
            rule: String::new(),
            extra: BTreeMap::new(),
            replayers: Vec::new(),
            replay_arg,
            evidence_out,
            inconclusive: Vec::new(),
            only_sub,
            shard: std::env::var("VERIF_SHARD").ok().and_then(|v| {
                let mut it = v.split('/');
                Some((it.next()?.parse().ok()?, it.next()?.parse().ok()?))
            }),
        }
    }

    pub fn thorough(&self) -> bool {
        self.tier == Tier::Thorough
    }

    /// budget selector: quick / thorough
    pub fn n(&self, quick: u64, thorough: u64) -> u64 {
        if self.thorough() {
            thorough
        } else {
            quick
        }
    }

    pub fn root(&self) -> &PathBuf {
        &self.root
    }

    pub fn rule(&mut self, s: &str) {
        self.rule = s.to_string();
    }

    pub fn assume(&mut self, s: &str) {
        self.assumptions.push(s.to_string());
    }

    pub fn extra(&mut self, k: &str, v: Value) {
        self.extra.insert(k.to_string(), v);
    }

    pub fn class(&mut self, label: &str, n: u64) {
        *self.classes.entry(label.to_string()).or_insert(0) += n;
    }

    pub fn inconclusive(&mut self, why: &str) {
        println!("INCONCLUSIVE property={} {}", self.id, why);
        self.inconclusive.push(why.to_string());
    }

    /// true when a sub-check should run (`--sub name` restricts a run to one sub-check; debugging aid)
    pub fn want(&self, sub: &str) -> bool {
        if self.violations >= 5 {
            // enough reproductions; do not spend the budget re-finding the same defect
            return false;
        }
        if let Some((i, n)) = self.shard {
            // thorough tier: the driver runs n processes in parallel, each owning the sub-checks that hash to it
            if hash_of(sub) % n != i {
                return false;
            }
        }
        self.only_sub.as_deref().map(|s| s == sub).unwrap_or(true)
    }

    pub fn is_known(&self, sig: &str) -> bool {
        self.known.iter().any(|k| k.sig == sig)
    }

    /// 32-byte seed for a sub-check: pure function of (VERIF_SEED, property id, sub-check name).
    pub fn sub_seed(&self, sub: &str) -> [u8; 32] {
        let mut x = self.seed ^ hash_of(&(self.id.as_str(), sub, self.profile.as_str()));
        let mut out = [0u8; 32];
        for c in out.chunks_mut(8) {
            c.copy_from_slice(&splitmix64(&mut x).to_le_bytes());
        }
        out
    }

    pub fn sub_rng(&self, sub: &str) -> SplitMix {
        let s = self.sub_seed(sub);
        SplitMix(u64::from_le_bytes(s[..8].try_into().unwrap()))
    }

    pub fn replayer(&mut self, kind: &str, f: impl Fn(&Value) -> CaseResult + 'static) {
        self.replayers.push((kind.to_string(), Box::new(f)));
    }

    fn run_replay_file(&self, path: &PathBuf) -> Result<CaseResult, String> {
        let text = std::fs::read_to_string(path).map_err(|e| format!("cannot read {}: {}", path.display(), e))?;
        let v: Value = serde_json::from_str(&text).map_err(|e| format!("bad json {}: {}", path.display(), e))?;
        let kind = v.get("kind").and_then(|k| k.as_str()).ok_or("replay file without kind")?.to_string();
        let case = v.get("case").ok_or("replay file without case")?;
        let r = self
            .replayers
            .iter()
            .find(|(k, _)| *k == kind)
            .ok_or(format!("no replayer for kind {}", kind))?;
        Ok(guarded(|| (r.1)(case)))
    }

    /// Handles `--replay <file>` (runs it and exits) and the committed regression tier
    /// `/verif/replays/<id>/*.json` (always first in a normal run).
    pub fn begin(&mut self) {
        if let Some(p) = self.replay_arg.clone() {
            match self.run_replay_file(&p) {
                Err(e) => {
                    println!("INCONCLUSIVE property={} replay: {}", self.id, e);
                    std::process::exit(2);
                }
                Ok(Ok(_)) => {
                    println!("REPLAY property={} file={} result=pass", self.id, p.display());
                    std::process::exit(0);
                }
                Ok(Err(v)) => {
                    println!("REPLAY property={} file={} result=FAIL sig={}\n{}", self.id, p.display(), v.sig, v.msg);
                    println!("VIOLATION property={} replay={}", self.id, p.display());
                    std::process::exit(1);
                }
            }
        }
        if matches!(self.shard, Some((i, _)) if i != 0) {
            return; // the regression tier runs in shard 0 only
        }
        let dir = self.root.join("replays").join(&self.id);
        let mut files: Vec<PathBuf> = match std::fs::read_dir(&dir) {
            Ok(rd) => rd.filter_map(|e| e.ok()).map(|e| e.path()).filter(|p| p.extension().map(|x| x == "json").unwrap_or(false)).collect(),
            Err(_) => Vec::new(),
        };
        files.sort();
        let mut sub = SubReport { name: "regression-replays".into(), engine: "replay".into(), ..Default::default() };
        for f in files {
            match self.run_replay_file(&f) {
                Err(e) => self.inconclusive(&format!("replay {}: {}", f.display(), e)),
                Ok(Ok(st)) => {
                    self.evaluations += 1;
                    sub.evaluations += 1;
                    if st.nontrivial && self.nontrivial.insert(hash_of(&f.to_string_lossy().as_ref())) {
                        sub.distinct_nontrivial += 1;
                    }
                    self.class("replay-pass", 1);
                }
                Ok(Err(v)) => {
                    self.evaluations += 1;
                    sub.evaluations += 1;
                    self.emit_violation(&v, &f);
                }
            }
        }
        self.subs.push(sub);
    }

    fn emit_violation(&mut self, v: &Violation, path: &PathBuf) {
        if v.sig.starts_with("harness-panic") {
            self.inconclusive(&format!("{} (case saved at {})", v.msg, path.display()));
            return;
        }
        if let Some(k) = self.known.iter_mut().find(|k| k.sig == v.sig) {
            if !k.printed {
                println!("KNOWN-FINDING: property={} {} (sig={})", self.id, k.text, k.sig);
                k.printed = true;
            }
            self.excluded_known += 1;
            return;
        }
        self.violations += 1;
        println!("violation detail [{}]: {}", v.sig, v.msg);
        println!("VIOLATION property={} replay={}", self.id, path.display());
    }

    /// Persist a failing case as a replay file and report it.
    pub fn violation<C: Serialize>(&mut self, sub: &str, kind: &str, case: &C, v: &Violation) {
        let case_v = serde_json::to_value(case).unwrap_or(Value::Null);
        let body = json!({"property": self.id, "sub": sub, "kind": kind, "sig": v.sig, "msg": v.msg,
                          "profile": self.profile, "seed": self.seed, "case": case_v});
        let text = serde_json::to_string_pretty(&body).unwrap();
        let h = hash_of(&text);
        let dir = self.root.join("out").join("violations");
        let _ = std::fs::create_dir_all(&dir);
        let path = dir.join(format!("{}-{:016x}.json", self.id, h));
        let _ = std::fs::write(&path, text);
        self.emit_violation(v, &path);
    }

    fn take_sample(&mut self, stats: &CaseStats, mk: impl FnOnce() -> Value) {
        let want_small = stats.nontrivial && self.samples.len() < 3;
        let want_large = stats.nontrivial && self.largest.as_ref().map(|(s, _)| stats.size > *s).unwrap_or(true);
        if want_small || want_large {
            let v = mk();
            if want_small {
                self.samples.push(v.clone());
            }
            if want_large {
                self.largest = Some((stats.size, v));
            }
        }
    }

    /// Record one interpreted case.
    pub fn record<C: Hash + Serialize>(&mut self, sub: &mut SubHandle, case: &C, stats: &CaseStats) {
        self.evaluations += 1;
        sub.0.evaluations += 1;
        for l in &stats.labels {
            *self.classes.entry(l.to_string()).or_insert(0) += 1;
        }
        if stats.nontrivial {
            *self.classes.entry("nontrivial".into()).or_insert(0) += 1;
            if self.nontrivial.insert(hash_of(&(sub.0.name.as_str(), case))) {
                sub.0.distinct_nontrivial += 1;
            }
        }
        let name = sub.0.name.clone();
        self.take_sample(stats, || json!({"sub": name, "case": serde_json::to_value(case).unwrap_or(Value::Null)}));
    }

    pub fn sub(&self, name: &str, engine: &str) -> SubHandle {
        SubHandle(SubReport { name: name.to_string(), engine: engine.to_string(), ..Default::default() })
    }

    pub fn end_sub(&mut self, sub: SubHandle) {
        self.subs.push(sub.0);
    }

    /// Record an enumerated block whose cases are distinct by construction.
    pub fn bulk(&mut self, name: &str, evaluations: u64, nontrivial: u64, exhaustive: bool, domain: &str, sample: Value) {
        self.evaluations += evaluations;
        self.bulk_nontrivial += nontrivial;
        self.subs.push(SubReport {
            name: name.to_string(),
            engine: if exhaustive { "exhaustive-enumeration".into() } else { "enumeration".into() },
            evaluations,
            distinct_nontrivial: nontrivial,
            exhaustive,
            domain: Some(domain.to_string()),
        });
        if self.samples.len() < 6 {
            self.samples.push(json!({"sub": name, "case": sample}));
        }
    }

    /// E1: model-based proptest. `f` interprets one case against library and model.
    pub fn prop<S, F>(&mut self, name: &str, kind: &str, cases: u64, strat: S, f: F)
    where
        S: Strategy,
        S::Value: Hash + Serialize + Clone + Debug,
        F: Fn(&S::Value) -> CaseResult,
    {
        self.prop_cfg(name, kind, cases, 50_000, strat, f)
    }

    /// `prop` split into `parts` independently seeded sub-checks `name#k` (so that the thorough tier can run
    /// them in parallel shards); with parts == 1 it is exactly `prop`.
    pub fn prop_split<S, F>(&mut self, name: &str, kind: &str, cases: u64, parts: u64, strat: S, f: F)
    where
        S: Strategy + Clone,
        S::Value: Hash + Serialize + Clone + Debug,
        F: Fn(&S::Value) -> CaseResult,
    {
        if parts <= 1 {
            return self.prop(name, kind, cases, strat, f);
        }
        for k in 0..parts {
            self.prop(&format!("{}#{}", name, k), kind, (cases + parts - 1) / parts, strat.clone(), &f);
        }
    }

    /// number of pieces large sub-checks are split into (1 in the quick tier)
    pub fn parts(&self) -> u64 {
        if self.thorough() {
            8
        } else {
            1
        }
    }

    /// `prop` with an explicit cap on shrink iterations (expensive or schedule-dependent cases).
    pub fn prop_cfg<S, F>(&mut self, name: &str, kind: &str, cases: u64, max_shrink: u32, strat: S, f: F)
    where
        S: Strategy,
        S::Value: Hash + Serialize + Clone + Debug,
        F: Fn(&S::Value) -> CaseResult,
    {
        if !self.want(name) {
            return;
        }
        let config = Config {
            cases: cases as u32,
            failure_persistence: None,
            max_shrink_iters: max_shrink,
            max_local_rejects: 1_000_000,
            max_global_rejects: 1_000_000,
            ..Config::default()
        };
        let seed = self.sub_seed(name);
        let mut runner = TestRunner::new_with_rng(config, TestRng::from_seed(RngAlgorithm::ChaCha, &seed));
        let mut sub = self.sub(name, "proptest");
        let failed = RefCell::new(false);
        let last_failure: RefCell<Option<Violation>> = RefCell::new(None);
        let acc: RefCell<Vec<(S::Value, CaseStats)>> = RefCell::new(Vec::new());
        // evaluate in batches so that `record` (which needs &mut self) stays outside the runner closure
        let result = {
            let this = RefCell::new(&mut *self);
            let subc = RefCell::new(&mut sub);
            runner.run(&strat, |v| {
                let r = guarded(|| f(&v));
                match r {
                    Ok(st) => {
                        if !*failed.borrow() {
                            let mut a = acc.borrow_mut();
                            a.push((v, st));
                            if a.len() >= 256 {
                                let mut t = this.borrow_mut();
                                let mut s = subc.borrow_mut();
                                for (c, st) in a.drain(..) {
                                    t.record(&mut s, &c, &st);
                                }
                            }
                        }
                        Ok(())
                    }
                    Err(viol) => {
                        *failed.borrow_mut() = true;
                        let sig = viol.sig.clone();
                        *last_failure.borrow_mut() = Some(viol);
                        Err(TestCaseError::fail(sig))
                    }
                }
            })
        };
        for (c, st) in acc.borrow_mut().drain(..) {
            self.record(&mut sub, &c, &st);
        }
        match result {
            Ok(()) => {}
            Err(TestError::Fail(_, minimal)) => {
                sub.0.evaluations += 1;
                self.evaluations += 1;
                let v = match guarded(|| f(&minimal)) {
                    Err(v) => v,
                    Ok(_) => match last_failure.borrow_mut().take() {
                        // keep what was actually observed: the signature and message of the last failing evaluation of the search
                        Some(seen) => Violation::new(&seen.sig, format!("{} [observed during the search; the shrunk case passed when re-run once more: schedule- or state-dependent failure]", seen.msg)),
                        None => Violation::new("not-reproduced", "the shrunk case failed during the search but passed when re-run once more (schedule- or state-dependent failure)"),
                    },
                };
                self.violation(name, kind, &minimal, &v);
            }
            Err(TestError::Abort(reason)) => {
                self.inconclusive(&format!("sub-check {} aborted by proptest: {}", name, reason));
            }
        }
        self.end_sub(sub);
    }

    /// E2: run `f` over an explicit enumeration; stops at the first violation (enumerations are ordered
    /// small to large, so the first failure is already minimal in the enumeration order).
    pub fn exhaustive<C, I, F>(&mut self, name: &str, kind: &str, domain: &str, exhaustive: bool, cases: I, f: F)
    where
        I: IntoIterator<Item = C>,
        C: Hash + Serialize,
        F: Fn(&C) -> CaseResult,
    {
        if !self.want(name) {
            return;
        }
        let mut sub = self.sub(name, if exhaustive { "exhaustive-enumeration" } else { "enumeration" });
        sub.0.exhaustive = exhaustive;
        sub.0.domain = Some(domain.to_string());
        for c in cases {
            match guarded(|| f(&c)) {
                Ok(st) => self.record(&mut sub, &c, &st),
                Err(v) => {
                    self.evaluations += 1;
                    sub.0.evaluations += 1;
                    sub.0.exhaustive = false;
                    self.violation(name, kind, &c, &v);
                    break;
                }
            }
        }
        self.end_sub(sub);
    }

    pub fn violations(&self) -> u64 {
        self.violations
    }

    pub fn finish(mut self) -> ! {
        let wall = self.start.elapsed().as_secs_f64();
        let distinct = self.nontrivial.len() as u64 + self.bulk_nontrivial;
        if let Some((_, v)) = self.largest.take() {
            self.samples.push(json!({"largest_nontrivial": v}));
        }
        let all_exh = !self.subs.is_empty() && self.subs.iter().filter(|s| s.engine != "replay").all(|s| s.exhaustive);
        let exh_subs: Vec<&str> = self.subs.iter().filter(|s| s.exhaustive).map(|s| s.name.as_str()).collect();
        let mut coverage = json!({
            "evaluations": self.evaluations,
            "distinct_nontrivial": distinct,
            "rule": self.rule,
            "samples": self.samples,
            "classes": self.classes,
            "exhaustive": all_exh,
            "exhaustive_subdomains": exh_subs,
            "sub_checks": self.subs,
            "excluded_known": self.excluded_known,
            "profile": self.profile,
        });
        for (k, v) in &self.extra {
            coverage[k] = v.clone();
        }
        let ev = json!({
            "property_id": self.id,
            "tier": if self.thorough() { "thorough" } else { "quick" },
            "seed": self.seed as i64,
            "level": "exploration",
            "coverage": coverage,
            "assumptions": self.assumptions,
            "wall_s": (wall * 1000.0).round() / 1000.0,
            "violations": self.violations,
            "inconclusive": self.inconclusive,
        });
        if let Some(p) = self.evidence_out.parent() {
            let _ = std::fs::create_dir_all(p);
        }
        std::fs::write(&self.evidence_out, serde_json::to_string_pretty(&ev).unwrap()).expect("write evidence");
        println!(
            "SUMMARY property={} profile={} tier={:?} seed={} evaluations={} distinct_nontrivial={} violations={} known={} wall_s={:.2}",
            self.id, self.profile, self.tier, self.seed, self.evaluations, distinct, self.violations, self.excluded_known, wall
        );
        let code = if self.violations > 0 {
            1
        } else if !self.inconclusive.is_empty() {
            2
        } else {
            0
        };
        std::process::exit(code)
    }
}

pub struct SubHandle(SubReport);
impl SubHandle {
    pub fn set_exhaustive(&mut self, domain: &str) {
        self.0.exhaustive = true;
        self.0.domain = Some(domain.to_string());
    }
}

/// Monotone index mapping for shrink-friendly raw selectors: raw 16-bit → 0..len
pub fn pick(raw: u16, len: usize) -> usize {
    debug_assert!(len > 0);
    ((raw as usize) * len) >> 16
}

/// Draw one value from a strategy with a given runner (for enumerators that want a proptest-generated seed case).
pub fn sample_one<S: Strategy>(strat: &S, seed: [u8; 32]) -> S::Value {
    let mut runner = TestRunner::new_with_rng(Config::default(), TestRng::from_seed(RngAlgorithm::ChaCha, &seed));
    strat.new_tree(&mut runner).unwrap().current()
}

/// Iterator adaptors that std implements on top of `next()` — unless the library overrides them. For a
/// freshly made iterator (via `mk`) and the expected item list `want`, check nth / skip / step_by / count /
/// last / partially-consumed count / size_hint against the same adaptors on the expected list.
pub fn adaptors_agree<T, I, F>(what: &str, want: &[T], k: usize, mk: F) -> Result<(), Violation>
where
    T: PartialEq + Debug + Clone,
    I: Iterator<Item = T>,
    F: Fn() -> I,
{
    let n = want.len();
    let cap = n + 2; // collections are bounded; count()/last()/nth() run on the library iterator itself (a hang there is a watchdog exit 2)
    let ks = [0usize, 1, k % (n + 2), n.saturating_sub(1), n, n + 1];
    for &k in &ks {
        let got = mk().nth(k);
        vensure!(got.as_ref() == want.get(k), "iterator-adaptor/nth", "{}: nth({}) = {:?}, expected {:?}", what, k, got, want.get(k));
        let got: Vec<T> = mk().skip(k).take(cap).collect();
        let exp: Vec<T> = want.iter().skip(k).cloned().collect();
        vensure!(got == exp, "iterator-adaptor/skip", "{}: skip({}) yields {} items {:?}, expected {} items", what, k, got.len(), &got[..got.len().min(4)], exp.len());
        let mut it = mk();
        for _ in 0..k.min(n) {
            it.next();
        }
        // (called on the library iterator itself, not through `take`, so that an overridden count() is the one that runs)
        let c = it.count();
        vensure!(c == n - k.min(n), "iterator-adaptor/count-after-partial", "{}: after {} calls of next(), count() = {}, expected {}", what, k.min(n), c, n - k.min(n));
        // last() / nth() / size_hint() after a consumed prefix - including the prefix that is exactly everything, not yet followed by
        // the call that returns None
        let mut it = mk();
        for _ in 0..k.min(n) {
            it.next();
        }
        let (lo, hi) = it.size_hint();
        let left = n - k.min(n);
        vensure!(lo <= left && hi.map(|h| h >= left).unwrap_or(true), "iterator-adaptor/size_hint", "{}: after {} calls of next(), size_hint() = ({}, {:?}) but {} items are left", what, k.min(n), lo, hi, left);
        let l = it.last();
        let exp = if k.min(n) < n { want.last() } else { None };
        vensure!(l.as_ref() == exp, "iterator-adaptor/last-after-partial", "{}: after {} calls of next(), last() = {:?}, expected {:?}", what, k.min(n), l, exp);
        let mut it = mk();
        for _ in 0..k.min(n) {
            it.next();
        }
        let got = it.nth(1);
        vensure!(got.as_ref() == want.get(k.min(n) + 1), "iterator-adaptor/nth", "{}: after {} calls of next(), nth(1) = {:?}, expected {:?}", what, k.min(n), got, want.get(k.min(n) + 1));
    }
    // distances beyond what an 8-bit, 16-bit or 32-bit cursor can hold
    // (an nth() that takes time proportional to the distance - rather than to the number of items left - is slow, not wrong: the
    // distances beyond 2^32 are only tried when nth(65537) returned at once; timing is used for this skip only, never for a verdict)
    let mut linear_in_distance = false;
    for &d in &[255usize, 256, 257, 258, 511, 512, 65535, 65536, 65537, 1 << 32, (1 << 32) + 1, usize::MAX - 1, usize::MAX] {
        if d > 65537 && linear_in_distance {
            break;
        }
        let t0 = std::time::Instant::now();
        let got = mk().nth(d);
        if d == 65537 && t0.elapsed() > std::time::Duration::from_micros(40 + 2 * n as u64) {
            linear_in_distance = true;
        }
        vensure!(got.as_ref() == want.get(d), "iterator-adaptor/nth", "{}: nth({}) = {:?}, expected {:?}", what, d, got, want.get(d));
        let got: Vec<T> = mk().skip(d).take(cap).collect();
        let exp: Vec<T> = want.iter().skip(d).cloned().collect();
        vensure!(got == exp, "iterator-adaptor/skip", "{}: skip({}) yields {} items {:?}, expected {} items", what, d, got.len(), &got[..got.len().min(4)], exp.len());
        if d < usize::MAX {
            let got: Vec<T> = mk().step_by(d + 1).take(cap).collect();
            let exp: Vec<T> = want.iter().step_by(d + 1).cloned().collect();
            vensure!(got == exp, "iterator-adaptor/step_by", "{}: step_by({}) yields {} items, expected {}", what, d + 1, got.len(), exp.len());
        }
        let mut it = mk();
        if it.next().is_some() {
            let got = it.nth(d);
            vensure!(got.as_ref() == want.get(d.saturating_add(1)).filter(|_| d < usize::MAX), "iterator-adaptor/nth", "{}: after one call of next(), nth({}) = {:?}, expected {:?}", what, d, got, want.get(d.saturating_add(1)));
        }
    }
    for s in [1usize, 2, 3, k % 5 + 1] {
        let got: Vec<T> = mk().step_by(s).take(cap).collect();
        let exp: Vec<T> = want.iter().step_by(s).cloned().collect();
        vensure!(got == exp, "iterator-adaptor/step_by", "{}: step_by({}) yields {} items, expected {}", what, s, got.len(), exp.len());
    }
    let c = mk().count();
    vensure!(c == n, "iterator-adaptor/count", "{}: count() = {}, expected {}", what, c, n);
    let l = mk().last();
    vensure!(l.as_ref() == want.last(), "iterator-adaptor/last", "{}: last() = {:?}, expected {:?}", what, l, want.last());
    let (lo, hi) = mk().size_hint();
    vensure!(lo <= n && hi.map(|h| h >= n).unwrap_or(true), "iterator-adaptor/size_hint", "{}: size_hint() = ({}, {:?}) but the iterator yields {} items", what, lo, hi, n);
    Ok(())
}
