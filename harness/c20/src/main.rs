//! C20: rec_lambda! closures equal explicit recursion for every supported macro shape.
//! Engine E4: program generation. Every shape (capture pattern x #args x return x call syntax) is emitted with
//! generated body templates together with its explicit-recursion twin; the crate must compile and every
//! program must print the same (results, captured state) for both versions.

use serde::{Deserialize, Serialize};
use std::fmt::Write as _;
use std::path::PathBuf;
use std::process::Command;
use vcore::{CaseResult, CaseStats, Ctx, SplitMix, Violation};

#[derive(Clone, Debug, Hash, Serialize, Deserialize, PartialEq)]
struct Shape {
    /// captures in declaration order: (is_mut, type index)
    caps: Vec<(bool, u8)>,
    /// argument type indices, excluding the leading depth argument `d: u32` (so #args = 1 + args.len())
    args: Vec<u8>,
    /// return type index, None = no return type
    ret: Option<u8>,
    trailing_comma: bool,
    /// template parameters
    tseed: u64,
    /// one more, reference-typed argument `ar: &[u64]`; the closure is then called twice with borrows of two block-scoped vectors
    #[serde(default)]
    refarg: bool,
    /// a free function with the same name as the recursion name is in scope and called (as a plain function) from the body
    #[serde(default)]
    shadow: bool,
}

#[derive(Clone, Debug, Hash, Serialize, Deserialize, PartialEq)]
struct Program {
    shape: Shape,
    source: String,
}

const TYPES: [&str; 6] = ["u64", "i64", "usize", "Vec<u64>", "String", "(u32, u32)"];
const RET_TYPES: [&str; 4] = ["u64", "i64", "String", "(u64, u32)"];

fn init_value(t: u8, k: u64) -> String {
    match t % 6 {
        0 => format!("{}u64", 3 + k * 7),
        1 => format!("{}i64", -5 - (k as i64) * 11),
        2 => format!("{}usize", 2 + k),
        3 => format!("vec![{}u64, {}, {}]", k + 1, k + 2, k * 3),
        4 => format!("String::from(\"s{}\")", k),
        _ => format!("({}u32, {}u32)", k + 1, 2 * k + 5),
    }
}

/// expression of type u64 reading a *reference or value* named `v` of type t (`deref` = v is a reference)
fn read_u64(t: u8, v: &str, deref: bool) -> String {
    let d = if deref { format!("(*{})", v) } else { v.to_string() };
    match t % 6 {
        0 => d,
        1 => format!("({} as u64)", d),
        2 => format!("({} as u64)", d),
        3 => format!("({}.iter().fold(0u64, |a, b| a.wrapping_mul(3).wrapping_add(*b)).wrapping_add({}.len() as u64))", v, v),
        4 => format!("({}.len() as u64 + {}.bytes().map(|b| b as u64).sum::<u64>())", v, v),
        _ => format!("({}.0 as u64 * 5 + {}.1 as u64)", v, v),
    }
}

/// statement mutating `m: &mut T` with a u64 expression x
fn mutate(t: u8, m: &str, x: &str) -> String {
    match t % 6 {
        0 => format!("*{m} = {m}.wrapping_mul(31).wrapping_add({x});"),
        1 => format!("*{m} = {m}.wrapping_sub(({x}) as i64).wrapping_mul(3);"),
        2 => format!("*{m} = {m}.wrapping_add(({x}) as usize % 1000);"),
        3 => format!("{m}.push({x}); if {m}.len() > 40 {{ {m}.remove(0); }}"),
        4 => format!("{m}.push(char::from(b'a' + (({x}) % 26) as u8)); if {m}.len() > 30 {{ {m}.remove(0); }}"),
        _ => format!("{m}.0 = {m}.0.wrapping_add(({x}) as u32); {m}.1 ^= ({x}) as u32 >> 3;"),
    }
}

/// expression for the value of argument `a` (type t) passed to a recursive call
fn next_arg(t: u8, a: &str, salt: u64) -> String {
    match t % 6 {
        0 => format!("{a}.wrapping_mul(5).wrapping_add({salt})"),
        1 => format!("{a}.wrapping_sub({salt}).wrapping_mul(-3)"),
        2 => format!("({a} + {salt}) % 97"),
        3 => format!("{{ let mut v = {a}.clone(); v.push({salt}); if v.len() > 6 {{ v.remove(0); }} v }}"),
        4 => format!("{{ let mut s = {a}.clone(); s.push('x'); if s.len() > 6 {{ s.remove(0); }} s }}"),
        _ => format!("({a}.1.wrapping_add({salt}), {a}.0 ^ 5)"),
    }
}

fn ret_from_u64(r: u8, x: &str) -> String {
    match r % 4 {
        0 => x.to_string(),
        1 => format!("(({x}) as i64).wrapping_neg()"),
        2 => format!("format!(\"<{{}}>\", ({x}) % 1000)"),
        _ => format!("({x}, (({x}) >> 7) as u32)"),
    }
}

fn ret_to_u64(r: u8, v: &str) -> String {
    match r % 4 {
        0 => v.to_string(),
        1 => format!("({v} as u64)"),
        2 => format!("({v}.len() as u64 * 7 + {v}.bytes().map(|b| b as u64).sum::<u64>())"),
        _ => format!("({v}.0.wrapping_add({v}.1 as u64))"),
    }
}

/// Emit the body. `call(args)` renders a recursive call.
fn body(s: &Shape, call0: &dyn Fn(&[String]) -> String, free_fn: &str) -> String {
    let mut r = SplitMix(s.tseed);
    let mut b = String::new();
    // the reference-typed argument is passed on shortened by one element
    let call = |args: &[String]| -> String {
        if s.refarg {
            let mut a = args.to_vec();
            a.push("&ar[(ar.len() > 1) as usize..]".to_string());
            call0(&a)
        } else {
            call0(args)
        }
    };
    let call = &call;
    // a u64 "mix" of everything readable
    let mut terms: Vec<String> = vec!["(d as u64)".into()];
    if s.refarg {
        terms.push("(ar.iter().fold(5u64, |a, b| a.wrapping_mul(31).wrapping_add(*b)) + ar.len() as u64)".into());
    }
    if s.shadow {
        terms.push(format!("{}(d as u64 + 2)", free_fn));
    }
    for (i, &t) in s.args.iter().enumerate() {
        terms.push(read_u64(t, &format!("a{}", i), false));
    }
    for (i, &(is_mut, t)) in s.caps.iter().enumerate() {
        if !is_mut {
            terms.push(read_u64(t, &format!("c{}", i), true));
        }
    }
    let mix = format!("[{}].iter().fold(17u64, |acc, v| acc.wrapping_mul(1_000_003).wrapping_add(*v))", terms.join(", "));
    let _ = writeln!(b, "let x0: u64 = {};", mix);
    let muts: Vec<(usize, u8)> = s.caps.iter().enumerate().filter(|(_, c)| c.0).map(|(i, c)| (i, c.1)).collect();
    // pre mutation
    for &(i, t) in &muts {
        if r.below(3) != 0 {
            let _ = writeln!(b, "{}", mutate(t, &format!("c{}", i), "x0 % 89"));
        }
    }
    let two_calls = r.below(2) == 0;
    let branch_on_arg = r.below(2) == 0;
    let base = "x0 ^ 0xABCD";
    match s.ret {
        Some(rt) => {
            let _ = writeln!(b, "if d == 0 {{ return {}; }}", ret_from_u64(rt, base));
            let mut args1: Vec<String> = std::iter::once("d - 1".to_string()).chain(s.args.iter().enumerate().map(|(i, &t)| next_arg(t, &format!("a{}", i), 1 + i as u64))).collect();
            // argument expressions that themselves use the machinery: a nested recursive call, or a block that
            // mutates a mutable capture (both must be evaluated before the captures are re-borrowed for the call)
            if let Some(j) = s.args.iter().position(|&t| t % 6 <= 2) {
                let cast = ["", " as i64", " as usize % 97"][s.args[j] as usize % 6];
                match r.below(4) {
                    0 | 1 => {
                        let inner: Vec<String> = std::iter::once("d - 1".to_string()).chain(s.args.iter().enumerate().map(|(i, &t)| next_arg(t, &format!("a{}", i), 20 + i as u64))).collect();
                        args1[j + 1] = format!("{{ let t = {}; ({}){} }}", call(&inner), ret_to_u64(rt, "t"), cast);
                    }
                    2 => {
                        if let Some(&(i, t)) = muts.iter().find(|(_, t)| t % 6 <= 2) {
                            args1[j + 1] = format!("{{ {} ({}){} }}", mutate(t, &format!("c{}", i), "7"), read_u64(t, &format!("c{}", i), true), cast);
                        }
                    }
                    _ => {}
                }
            }
            let _ = writeln!(b, "let r1 = {};", call(&args1));
            for &(i, t) in &muts {
                if r.below(2) == 0 {
                    let _ = writeln!(b, "{}", mutate(t, &format!("c{}", i), &format!("{} % 53", ret_to_u64(rt, "r1"))));
                }
            }
            let mut acc = format!("{}.wrapping_mul(3).wrapping_add(x0)", ret_to_u64(rt, "r1"));
            if two_calls {
                let args2: Vec<String> = std::iter::once("d - 1".to_string()).chain(s.args.iter().enumerate().map(|(i, &t)| next_arg(t, &format!("a{}", i), 9 + i as u64))).collect();
                let cond = if branch_on_arg { "x0 % 3 != 0".to_string() } else { "d % 2 == 1".to_string() };
                let _ = writeln!(b, "let r2 = if {} {{ {} }} else {{ {} }};", cond, call(&args2), ret_from_u64(rt, "x0.rotate_left(9)"));
                acc = format!("{}.wrapping_add({}.wrapping_mul(7))", acc, ret_to_u64(rt, "r2"));
            }
            for &(i, t) in &muts {
                if r.below(3) == 0 {
                    let _ = writeln!(b, "{}", mutate(t, &format!("c{}", i), "(d as u64) + 1"));
                }
            }
            let _ = writeln!(b, "{}", ret_from_u64(rt, &acc));
        }
        None => {
            let _ = writeln!(b, "if d == 0 {{ return; }}");
            let args1: Vec<String> = std::iter::once("d - 1".to_string()).chain(s.args.iter().enumerate().map(|(i, &t)| next_arg(t, &format!("a{}", i), 1 + i as u64))).collect();
            let _ = writeln!(b, "{};", call(&args1));
            for &(i, t) in &muts {
                let _ = writeln!(b, "{}", mutate(t, &format!("c{}", i), "x0 % 61 + d as u64"));
            }
            if two_calls {
                let args2: Vec<String> = std::iter::once("d - 1".to_string()).chain(s.args.iter().enumerate().map(|(i, &t)| next_arg(t, &format!("a{}", i), 4 + i as u64))).collect();
                let _ = writeln!(b, "if x0 % 2 == 0 {{ {}; }}", call(&args2));
            }
        }
    }
    b
}

fn emit(idx: usize, s: &Shape) -> String {
    let mut o = String::new();
    let name = format!("rec{}", idx % 7); // several different macro names
    let ret_ty = s.ret.map(|r| RET_TYPES[r as usize % 4]);
    let mut arg_decl: Vec<String> = std::iter::once("d: u32".to_string()).chain(s.args.iter().enumerate().map(|(i, &t)| format!("a{}: {}", i, TYPES[t as usize % 6]))).collect();
    if s.refarg {
        arg_decl.push("ar: &[u64]".to_string());
    }
    let cap_decl_macro: Vec<String> = s.caps.iter().enumerate().map(|(i, &(m, t))| format!("c{}: &{}{}", i, if m { "mut " } else { "" }, TYPES[t as usize % 6])).collect();
    let cap_decl_fn = cap_decl_macro.clone();
    let caps_init: String = s.caps.iter().enumerate().map(|(i, &(m, t))| format!("let {}c{}: {} = {};\n", if m { "mut " } else { "" }, i, TYPES[t as usize % 6], init_value(t, i as u64 + 1))).collect();
    let tc = s.trailing_comma;
    let macro_call = |args: &[String]| -> String { format!("{}!({}{})", name, args.join(", "), if tc { "," } else { "" }) };
    let cap_pass: Vec<String> = s.caps.iter().enumerate().map(|(i, _)| format!("c{}", i)).collect();
    let twin_call = |args: &[String]| -> String { format!("twin({})", args.iter().cloned().chain(cap_pass.iter().cloned()).collect::<Vec<_>>().join(", ")) };
    let first_args = |k: u64| -> String { std::iter::once(format!("{}", 3 + k % 2)).chain(s.args.iter().enumerate().map(|(i, &t)| init_value(t, 10 * k + i as u64))).collect::<Vec<_>>().join(", ") };
    let state: String = std::iter::once("&res".to_string()).chain(s.caps.iter().enumerate().map(|(i, _)| format!("&c{}", i))).collect::<Vec<_>>().join(", ");
    let ret_arrow = ret_ty.map(|t| format!(" -> {}", t)).unwrap_or_default();
    let _ = writeln!(o, "#[allow(unused_mut, unused_variables, unused_parens, clippy::all)]\nfn prog_{}() -> bool {{", idx);
    if s.shadow {
        // an ordinary function that happens to have the name used for the recursion
        let _ = writeln!(o, "fn {}(x: u64) -> u64 {{ x.wrapping_mul(31).wrapping_add(7) }}", name);
    }
    // macro version
    let _ = writeln!(o, "let m_out = {{\n{}let res = {{", caps_init);
    let caps_list = if s.caps.is_empty() { "||".to_string() } else { format!("|{}|", cap_decl_macro.join(", ")) };
    let _ = writeln!(o, "let mut f = rec_lambda!({}, {} {{\n|{}|{} {{\n{}}}\n}});", name, caps_list, arg_decl.join(", "), ret_arrow, body(s, &macro_call, &name));
    if s.refarg {
        // two calls whose reference arguments live in different, non-overlapping scopes
        let _ = writeln!(o, "let r_a = {{ let v = vec![4u64, 9, 1]; f({}, &v) }};\nlet r_b = {{ let w = vec![8u64, 3]; f({}, &w[..]) }};\n(r_a, r_b)\n}};", first_args(0), first_args(1));
    } else {
        let _ = writeln!(o, "let r_a = f({});\nlet r_b = f({});\n(r_a, r_b)\n}};", first_args(0), first_args(1));
    }
    let _ = writeln!(o, "format!(\"{{:?}}\", ({}))\n}};", state);
    // twin version
    let _ = writeln!(o, "let t_out = {{\n{}", caps_init);
    let _ = writeln!(o, "fn twin({}){} {{\n{}}}", arg_decl.iter().cloned().chain(cap_decl_fn.iter().cloned()).collect::<Vec<_>>().join(", "), ret_arrow, body(s, &twin_call, &name));
    let pass_outer: Vec<String> = s.caps.iter().enumerate().map(|(i, &(m, _))| format!("&{}c{}", if m { "mut " } else { "" }, i)).collect();
    let refarg = s.refarg;
    let outer_call = |k: u64| -> String {
        let extra = if refarg { vec![if k == 0 { "&[4u64, 9, 1][..]".to_string() } else { "&[8u64, 3][..]".to_string() }] } else { vec![] };
        format!("twin({})", std::iter::once(first_args(k)).chain(extra).chain(pass_outer.iter().cloned()).collect::<Vec<_>>().join(", "))
    };
    let _ = writeln!(o, "let res = {{ let r_a = {}; let r_b = {}; (r_a, r_b) }};", outer_call(0), outer_call(1));
    let _ = writeln!(o, "format!(\"{{:?}}\", ({}))\n}};", state);
    let _ = writeln!(o, "if m_out == t_out {{ println!(\"P{} OK {{}}\", m_out.len()); true }} else {{ println!(\"P{} DIFF macro={{}} twin={{}}\", m_out, t_out); false }}\n}}", idx, idx);
    o
}

fn crate_source(progs: &[(usize, Shape)]) -> (String, Vec<(usize, usize, usize)>) {
    let mut src = String::from("// generated by /verif/harness/c20 — do not edit\nuse rlib_lambda::rec_lambda;\n\n");
    let mut ranges = Vec::new();
    for (idx, s) in progs {
        let start = src.lines().count() + 1;
        src.push_str(&emit(*idx, s));
        src.push('\n');
        ranges.push((*idx, start, src.lines().count()));
    }
    src.push_str("fn main() {\n    let mut bad = 0;\n");
    for (idx, _) in progs {
        let _ = writeln!(src, "    if !prog_{}() {{ bad += 1; }}", idx);
    }
    src.push_str("    println!(\"DONE bad={}\", bad);\n}\n");
    (src, ranges)
}

struct Built {
    ok: bool,
    stderr: String,
    exe: PathBuf,
}

fn build(dir: &PathBuf, src: &str, root: &PathBuf) -> Built {
    std::fs::create_dir_all(dir.join("src")).unwrap();
    std::fs::write(dir.join("Cargo.toml"), "[package]\nname = \"c20gen\"\nversion = \"0.0.0\"\nedition = \"2021\"\n\n[dependencies]\nrlib_lambda = { path = \"/repo/rlib/lambda\" }\n\n[workspace]\n\n[profile.dev]\ndebug = 0\nincremental = false\n").unwrap();
    std::fs::write(dir.join("src/main.rs"), src).unwrap();
    let target = root.join("target").join("c20gen");
    let out = Command::new("cargo")
        .args(["build", "--offline", "--quiet", "--target-dir"])
        .arg(&target)
        .current_dir(dir)
        .env("CARGO_NET_OFFLINE", "true")
        .env_remove("CARGO_TARGET_DIR")
        .env("RUSTFLAGS", "-Awarnings")
        .output()
        .expect("cargo");
    Built { ok: out.status.success(), stderr: String::from_utf8_lossy(&out.stderr).into_owned(), exe: target.join("debug").join("c20gen") }
}

fn all_shapes(templates: u64, base: u64) -> Vec<Shape> {
    let mut shapes = Vec::new();
    let mut rng = SplitMix(base);
    for k in 0..=4usize {
        for pat in 0..(1u32 << k) {
            for nargs in 1..=4usize {
                for ret in [true, false] {
                    for tc in [false, true] {
                        for _ in 0..templates {
                            let caps: Vec<(bool, u8)> = (0..k).map(|i| ((pat >> i) & 1 == 1, rng.below(6) as u8)).collect();
                            let args: Vec<u8> = (0..nargs - 1).map(|_| rng.below(6) as u8).collect();
                            let tseed = rng.next();
                            // a quarter of the programs carry a reference-typed argument, a fifth a same-named free function
                            shapes.push(Shape { caps, args, ret: if ret { Some(rng.below(4) as u8) } else { None }, trailing_comma: tc, tseed, refarg: (tseed >> 20) % 4 == 1, shadow: (tseed >> 30) % 5 == 2 });
                        }
                    }
                }
            }
        }
    }
    shapes
}

fn stats_for(s: &Shape) -> CaseStats {
    let mut st = CaseStats::default();
    let first_mut = s.caps.iter().position(|c| c.0);
    let last_shared = s.caps.iter().rposition(|c| !c.0);
    let mut_before_shared = matches!((first_mut, last_shared), (Some(m), Some(c)) if m < c);
    if (s.caps.len() >= 2 && mut_before_shared) || s.args.len() + 1 >= 3 || s.trailing_comma {
        st.nontrivial = true;
    }
    if mut_before_shared {
        st.label("mut-capture-before-shared-capture");
    }
    if s.caps.is_empty() {
        st.label("no-captures");
    }
    if s.trailing_comma {
        st.label("trailing-comma-call");
    }
    if s.ret.is_none() {
        st.label("no-return-type");
    }
    if s.refarg {
        st.label("reference-typed-argument-borrowed-in-two-scopes");
    }
    if s.shadow {
        st.label("free-function-named-like-the-recursion");
    }
    st.size = (s.caps.len() + s.args.len()) as u64;
    st
}

/// compile + run one program alone: the replay unit
fn run_single(p: &Program, root: &PathBuf) -> CaseResult {
    let dir = root.join("out").join("c20single");
    let (src, _) = crate_source(&[(0, p.shape.clone())]);
    let b = build(&dir, &src, root);
    if !b.ok {
        return Err(Violation::new("does-not-compile", format!("shape {:?} does not compile:\n{}", p.shape, b.stderr.lines().take(25).collect::<Vec<_>>().join("\n"))));
    }
    let out = Command::new(&b.exe).output().map_err(|e| Violation::new("harness/run", e.to_string()))?;
    let text = String::from_utf8_lossy(&out.stdout);
    if !out.status.success() {
        return Err(Violation::new("program-crashed", format!("shape {:?}: generated program ended with {:?}: {}", p.shape, out.status, String::from_utf8_lossy(&out.stderr).chars().take(400).collect::<String>())));
    }
    for l in text.lines() {
        if l.starts_with("P0 DIFF") {
            return Err(Violation::new("differs-from-explicit-recursion", format!("shape {:?}: {}", p.shape, l.chars().take(600).collect::<String>())));
        }
    }
    Ok(stats_for(&p.shape))
}

fn main() {
    let mut ctx = Ctx::init("C20");
    ctx.rule(
        "A case is a generated Rust program: one macro shape = (capture list of 0..=4 entries, each & or &mut, in every order: 31 patterns) \
         x (1..=4 arguments) x (return type or none) x (recursive calls written with or without a trailing comma) = 496 shapes, all \
         emitted, each with generated capture/argument/return types from {u64, i64, usize, Vec<u64>, String, (u32,u32)} and a generated \
         body template (reads of shared captures, mutations of mutable captures before/between/after the recursive calls, one or two \
         recursive calls, branching on arguments, argument expressions that nest a recursive call or mutate a mutable capture; the first argument bounds the depth), quick 1 template per shape, thorough 8. For \
         each program the generator also emits the twin: a plain fn taking the same arguments plus every capture explicitly, with the \
         same body where name!(args) becomes twin(args, captures). Oracle: the generated crate compiles against /repo/rlib/lambda and \
         for every program the macro version and the twin print the same Debug rendering of (results of two invocations, every \
         captured variable afterwards). Non-trivial = at least two captures with a &mut listed before a &, or >= 3 arguments, or the \
         trailing-comma call form. Distinct = distinct program shapes+templates.",
    );
    ctx.assume("rustc's verdict on the generated crate is the compile oracle; warnings are ignored");
    let root = ctx.root().clone();
    {
        let root = root.clone();
        ctx.replayer("lambda-program", move |v| run_single(&serde_json::from_value::<Program>(v.clone()).expect("program"), &root));
    }
    ctx.begin();
    if ctx.want("all-shapes") {
        let templates = ctx.n(1, 8);
        let base = u64::from_le_bytes(ctx.sub_seed("templates")[..8].try_into().unwrap());
        let shapes = all_shapes(templates, base);
        let progs: Vec<(usize, Shape)> = shapes.iter().cloned().enumerate().collect();
        let (src, ranges) = crate_source(&progs);
        let dir = root.join("out").join("c20gen");
        let b = build(&dir, &src, &root);
        let mut sub = ctx.sub("all-shapes", "program-generation");
        let mut failed: Vec<usize> = Vec::new();
        let mut outputs: std::collections::HashMap<usize, String> = Default::default();
        if !b.ok {
            // map diagnostics back to programs through their line ranges
            let mut suspects: Vec<usize> = Vec::new();
            for l in b.stderr.lines() {
                if let Some(pos) = l.find("src/main.rs:") {
                    if let Some(n) = l[pos + 12..].split(':').next().and_then(|x| x.parse::<usize>().ok()) {
                        if let Some((idx, _, _)) = ranges.iter().find(|(_, s, e)| *s <= n && n <= *e) {
                            if !suspects.contains(idx) {
                                suspects.push(*idx);
                            }
                        }
                    }
                }
            }
            if suspects.is_empty() {
                ctx.inconclusive(&format!("generated crate does not build and no diagnostic maps to a program: {}", b.stderr.lines().take(12).collect::<Vec<_>>().join(" | ")));
            }
            println!("generated crate does not compile; {} suspect program(s) from the diagnostics; re-checking up to 6 alone", suspects.len());
            for &i in suspects.iter().take(6) {
                failed.push(i);
            }
        } else {
            let out = Command::new(&b.exe).output().expect("run generated program");
            let text = String::from_utf8_lossy(&out.stdout).into_owned();
            for l in text.lines() {
                if let Some(rest) = l.strip_prefix('P') {
                    let mut it = rest.splitn(3, ' ');
                    if let (Some(i), Some(kind)) = (it.next().and_then(|x| x.parse::<usize>().ok()), it.next()) {
                        outputs.insert(i, kind.to_string());
                        if kind != "OK" {
                            failed.push(i);
                        }
                    }
                }
            }
            if !out.status.success() || !text.contains("DONE bad=") {
                // a program crashed: the first one without an output line
                if let Some((i, _)) = progs.iter().find(|(i, _)| !outputs.contains_key(i)) {
                    failed.push(*i);
                }
            }
        }
        failed.sort_unstable();
        failed.dedup();
        for (i, s) in &progs {
            if failed.contains(i) {
                continue;
            }
            if b.ok {
                let st = stats_for(s);
                ctx.record(&mut sub, s, &st);
            }
        }
        if b.ok && failed.is_empty() {
            sub.set_exhaustive("all 496 macro shapes (31 capture patterns x 1..=4 arguments x return/no return x both call syntaxes)");
        }
        ctx.end_sub(sub);
        for i in failed.into_iter().take(6) {
            let p = Program { shape: progs[i].1.clone(), source: emit(0, &progs[i].1) };
            match vcore::guarded(|| run_single(&p, &root)) {
                Err(v) => ctx.violation("all-shapes", "lambda-program", &p, &v),
                Ok(_) => println!("program {} failed in the batch but passes alone; not reported", i),
            }
        }
    }
    ctx.finish();
}
