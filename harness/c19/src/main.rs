//! C19: Tensor indexing is a row-major bijection with per-dimension bounds checks; IO round trip; shape-aware equality.

use proptest::prelude::*;
use rlib_io::{Reader, Writer};
use rlib_tensor::Tensor;
use serde::{Deserialize, Serialize};
use vcore::{catch, vensure, CaseResult, CaseStats, Ctx, Violation};

#[derive(Clone, Debug, Hash, Serialize, Deserialize, PartialEq)]
enum Case {
    Shape { dims: Vec<u8> },
    IoInts { dims: Vec<u8>, vals: Vec<i64> },
    IoWords { dims: Vec<u8>, vals: Vec<String> },
    /// two shapes of the same rank and element count
    Eq { dims_a: Vec<u8>, dims_b: Vec<u8>, differ_at: Option<u16> },
    /// shapes with large extents (beyond 255 / 65535), checked on a sample of indices
    Big { dims: Vec<u32>, seed: u32 },
}

fn arr<const D: usize>(v: &[u8]) -> [usize; D] {
    let mut a = [0usize; D];
    for i in 0..D {
        a[i] = v[i] as usize;
    }
    a
}

fn offset(dims: &[usize], idx: &[usize]) -> usize {
    let mut off = 0usize;
    for i in 0..dims.len() {
        off = off.wrapping_mul(dims[i]).wrapping_add(idx[i]);
    }
    off
}

fn all_indices(dims: &[usize]) -> Vec<Vec<usize>> {
    let mut out = vec![vec![]];
    for &d in dims {
        let mut next = Vec::new();
        for p in &out {
            for k in 0..d {
                let mut q = p.clone();
                q.push(k);
                next.push(q);
            }
        }
        out = next;
    }
    out
}

fn written<T: rlib_io::Writable>(t: &T) -> String {
    let mut out = Vec::new();
    {
        let mut w = Writer::new(Box::new(&mut out));
        w.write(t);
    }
    String::from_utf8(out).unwrap()
}

fn shape<const D: usize>(dv: &[u8]) -> CaseResult {
    let mut st = CaseStats::default();
    let dims: [usize; D] = arr::<D>(dv);
    let dl = dims.to_vec();
    let len: usize = dims.iter().product();
    st.size = len as u64;
    let data: Vec<i64> = (0..len as i64).map(|x| 1000 + x).collect();
    let t = Tensor::<i64, D>::from_vec(dims, data.clone());
    let ts = Tensor::<i64, D>::from_slice(dims, &data);
    vensure!(t == ts, "from_slice", "dims {:?}: from_vec and from_slice of the same data differ", dl);
    vensure!(t.dims() == &dims, "dims", "dims {:?}: dims() = {:?}", dl, t.dims());
    for i in 0..D {
        vensure!(t.dim(i) == dims[i], "dim", "dims {:?}: dim({}) = {}", dl, i, t.dim(i));
    }
    vensure!(t.iter().cloned().collect::<Vec<_>>() == data, "iter", "dims {:?}: iter() does not yield the construction vector in order", dl);
    vensure!(t.clone().into_iter().collect::<Vec<_>>() == data, "into_iter", "dims {:?}: into_iter() does not yield the construction vector in order", dl);
    // every valid multi-index addresses the row-major element
    let idxs = all_indices(&dl);
    let mut seen = vec![false; len];
    let mut w = Tensor::<i64, D>::new(dims, -1);
    for (k, idx) in idxs.iter().enumerate() {
        let mut a = [0usize; D];
        a.copy_from_slice(idx);
        let off = offset(&dl, idx);
        vensure!(t[a] == data[off], "index", "dims {:?}: t[{:?}] = {}, row-major element {} is {}", dl, idx, t[a], off, data[off]);
        vensure!(t.get_index(a) == off, "get_index", "dims {:?}: get_index({:?}) = {}, row-major offset {}", dl, idx, t.get_index(a), off);
        vensure!(!seen[off], "index-not-injective", "dims {:?}: offset {} reached twice", dl, off);
        seen[off] = true;
        w[a] = 5000 + k as i64;
    }
    vensure!(seen.iter().all(|&s| s), "index-not-surjective", "dims {:?}: some element is not addressed by any valid index", dl);
    // writes through IndexMut landed on distinct elements, in row-major enumeration order
    let back: Vec<i64> = w.iter().cloned().collect();
    let want: Vec<i64> = (0..len as i64).map(|k| 5000 + k).collect();
    vensure!(back == want, "index_mut", "dims {:?}: after writing a unique value through every index, iter() gives {:?}", dl, back);
    // iter_mut visits the elements in the same row-major order
    let mut im = t.clone();
    for (k, x) in im.iter_mut().enumerate() {
        *x = 9000 + k as i64;
    }
    for (k, idx) in idxs.iter().enumerate() {
        let mut a = [0usize; D];
        a.copy_from_slice(idx);
        vensure!(im[a] == 9000 + k as i64, "iter_mut", "dims {:?}: iter_mut position {} is not index {:?}", dl, k, idx);
    }
    // out of range in exactly one dimension => panic, never a silent alias
    let mut oob = 0;
    for dim in 0..D {
        for idx in &idxs {
            if idx[dim] != 0 {
                continue; // vary the other coordinates, replace this one
            }
            let mut extras = vec![dims[dim], dims[dim] + 1];
            // huge values whose product with the stride wraps around in builds without overflow checks
            let stride0: usize = dims[dim + 1..].iter().product();
            extras.extend_from_slice(&[1usize << 62, 1usize << 63, usize::MAX, usize::MAX / 2 + 1, 1usize << 32, (usize::MAX / stride0.max(1)).wrapping_add(1), ((1usize << 63) / stride0.max(1)).wrapping_mul(2)]);
            for e in [(usize::MAX / stride0.max(1)).wrapping_add(1 + idx[D - 1]), ((usize::MAX - len) / stride0.max(1)).wrapping_add(2)] {
                extras.push(e);
            }
            extras.retain(|&e| e >= dims[dim]);
            // the largest value of this coordinate whose flattened offset is still inside the storage
            let stride: usize = dims[dim + 1..].iter().product();
            let base: usize = {
                let mut z = idx.clone();
                z[dim] = 0;
                offset(&dl, &z)
            };
            if len > base {
                let maxk = (len - 1 - base) / stride;
                if maxk >= dims[dim] {
                    extras.push(maxk);
                    extras.push((dims[dim] + maxk) / 2);
                }
            }
            for e in extras {
                let mut a = [0usize; D];
                a.copy_from_slice(idx);
                a[dim] = e;
                let flat_inside = offset(&dl, &a.to_vec()) < len;
                let r = catch(|| t[a]);
                oob += 1;
                if let Ok(v) = r {
                    return Err(Violation::new(
                        "out-of-range-index-accepted",
                        format!("dims {:?}: t[{:?}] (dimension {} out of range) returned {} instead of panicking{}", dl, a, dim, v, if flat_inside { " - it aliases another element" } else { "" }),
                    ));
                }
                let mut wc = w.clone();
                let r = catch(move || {
                    wc[a] = 1;
                });
                vensure!(r.is_err(), "out-of-range-index_mut-accepted", "dims {:?}: writing t[{:?}] (dimension {} out of range) did not panic", dl, a, dim);
                // the same probes right after *valid* accesses that share every other coordinate (a read, a write, or both): whatever an
                // access leaves behind in the tensor (a cached row, offset or layout) must not replace the per-dimension check
                let mut a0 = [0usize; D];
                a0.copy_from_slice(idx);
                for prior in 0..3u8 {
                    let mut tw = t.clone();
                    if prior != 1 {
                        let v = tw[a0];
                        std::hint::black_box(v);
                    }
                    if prior != 0 {
                        tw[a0] = 4242;
                    }
                    let what = ["read", "write", "read and write"][prior as usize];
                    let r = catch(|| tw[a]);
                    if let Ok(v) = r {
                        return Err(Violation::new(
                            "out-of-range-index-accepted",
                            format!("dims {:?}: after a valid {} of t[{:?}], t[{:?}] (dimension {} out of range) returned {} instead of panicking{}", dl, what, a0, a, dim, v, if flat_inside { " - it aliases another element" } else { "" }),
                        ));
                    }
                    let r = catch(move || {
                        tw[a] = 1;
                    });
                    vensure!(r.is_err(), "out-of-range-index_mut-accepted", "dims {:?}: after a valid {} of t[{:?}], writing t[{:?}] (dimension {} out of range) did not panic", dl, what, a0, a, dim);
                }
                if flat_inside && dim + 1 < D {
                    st.label("invalid-index-with-offset-inside-storage");
                }
            }
        }
    }
    st.size += oob;
    // constructors reject wrong lengths
    for wrong in [len + 1, len.saturating_sub(1), 0, len * 2] {
        if wrong == len {
            continue;
        }
        let v: Vec<i64> = vec![7; wrong];
        let r = catch(|| Tensor::<i64, D>::from_vec(dims, v.clone()));
        vensure!(r.is_err(), "from_vec-length-mismatch-accepted", "dims {:?}: from_vec accepted {} elements", dl, wrong);
        let r = catch(|| Tensor::<i64, D>::from_slice(dims, &v));
        vensure!(r.is_err(), "from_slice-length-mismatch-accepted", "dims {:?}: from_slice accepted {} elements", dl, wrong);
    }
    // zero extents are rejected by every constructor
    for z in 0..D {
        let mut zd = dims;
        zd[z] = 0;
        vensure!(catch(|| Tensor::<i64, D>::new(zd, 0)).is_err(), "zero-extent-accepted", "new({:?}) did not panic", zd);
        vensure!(catch(|| Tensor::<i64, D>::from_vec(zd, vec![])).is_err(), "zero-extent-accepted", "from_vec({:?}, []) did not panic", zd);
        vensure!(catch(|| Tensor::<i64, D>::from_slice(zd, &[])).is_err(), "zero-extent-accepted", "from_slice({:?}, []) did not panic", zd);
        let r = catch(|| {
            let mut rd = Reader::new(Box::new("1 2 3".as_bytes()));
            Tensor::<i64, D>::read(zd, &mut rd)
        });
        vensure!(r.is_err(), "zero-extent-accepted", "read({:?}) did not panic", zd);
    }
    // new(dims, v): every element is v
    let n = Tensor::<i64, D>::new(dims, 42);
    vensure!(n.iter().count() == len && n.iter().all(|&x| x == 42), "new", "dims {:?}: new(dims, 42) has {} elements", dl, n.iter().count());
    // write -> read round trip, tokens in iter() order
    let text = written(&t);
    let toks: Vec<i64> = text.split_ascii_whitespace().map(|s| s.parse().unwrap_or(i64::MIN)).collect();
    vensure!(toks == data, "write-order", "dims {:?}: written tokens {:?} are not the elements in iter() order", dl, toks);
    let mut rd = Reader::new(Box::new(text.as_bytes()));
    let back = Tensor::<i64, D>::read(dims, &mut rd);
    vensure!(back == t && back.dims() == t.dims(), "io-roundtrip", "dims {:?}: written as {:?}, read back different", dl, text);
    if D >= 2 {
        st.nontrivial = true;
    }
    Ok(st)
}

fn big<const D: usize>(dv: &[u32], seed: u32) -> CaseResult {
    let mut st = CaseStats::default();
    let mut dims = [0usize; D];
    for i in 0..D {
        dims[i] = dv[i] as usize;
    }
    let dl = dims.to_vec();
    let len: usize = dims.iter().product();
    st.size = len as u64;
    let data: Vec<i64> = (0..len as i64).map(|x| x * 3 + 1).collect();
    let t = Tensor::<i64, D>::from_vec(dims, data.clone());
    vensure!(t.iter().count() == len, "iter", "dims {:?}: iter() yields {} elements", dl, t.iter().count());
    let mut r = vcore::SplitMix(seed as u64 + 19);
    let mut w = t.clone();
    for k in 0..1500usize {
        // sample: random interior indices, plus every combination of first/last coordinates
        let mut a = [0usize; D];
        for i in 0..D {
            a[i] = match (k >> i) & 1 {
                _ if k < (1 << D) => {
                    if (k >> i) & 1 == 0 {
                        0
                    } else {
                        dims[i] - 1
                    }
                }
                _ => r.below(dims[i] as u64) as usize,
            };
        }
        let off = offset(&dl, &a);
        vensure!(t[a] == data[off], "index", "dims {:?}: t[{:?}] = {}, row-major element {} is {}", dl, a, t[a], off, data[off]);
        vensure!(t.get_index(a) == off, "get_index", "dims {:?}: get_index({:?}) = {}, row-major offset {}", dl, a, t.get_index(a), off);
        w[a] = -(off as i64) - 7;
        vensure!(w.iter().nth(off) == Some(&(-(off as i64) - 7)), "index_mut", "dims {:?}: write through {:?} did not land on element {}", dl, a, off);
        // out of range in each single dimension
        if k % 16 == 0 {
            for dim in 0..D {
                let mut extras = vec![dims[dim], dims[dim] + 1, dims[dim] + 255, dims[dim] + 256, dims[dim] + 65536];
                let stride: usize = dims[dim + 1..].iter().product();
                extras.extend_from_slice(&[1usize << 62, 1usize << 63, usize::MAX, 1usize << 32, (usize::MAX / stride.max(1)).wrapping_add(1), ((usize::MAX - len) / stride.max(1)).wrapping_add(2)]);
                extras.retain(|&e| e >= dims[dim]); // (a wrapped candidate may have become a valid index)
                let mut z = a;
                z[dim] = 0;
                let base = offset(&dl, &z);
                let maxk = (len - 1 - base) / stride;
                if maxk >= dims[dim] {
                    extras.push(maxk);
                }
                for e in extras {
                    let mut b = a;
                    b[dim] = e;
                    let res = catch(|| t[b]);
                    vensure!(res.is_err(), "out-of-range-index-accepted", "dims {:?}: t[{:?}] (dimension {} out of range) returned {:?} instead of panicking", dl, b, dim, res);
                    let mut wc = Tensor::<i64, D>::new(dims, 0);
                    let res = catch(move || {
                        wc[b] = 1;
                    });
                    vensure!(res.is_err(), "out-of-range-index_mut-accepted", "dims {:?}: writing t[{:?}] did not panic", dl, b);
                }
            }
        }
    }
    // IO round trip and equality against the reversed shape
    let text = written(&t);
    let mut rd = Reader::new(Box::new(text.as_bytes()));
    let back = Tensor::<i64, D>::read(dims, &mut rd);
    vensure!(back == t, "io-roundtrip", "dims {:?}: large tensor read back differently", dl);
    if D >= 2 {
        let mut rev = dims;
        rev.reverse();
        if rev != dims {
            let u = Tensor::<i64, D>::from_vec(rev, data.clone());
            vensure!(u != t, "eq-ignores-shape", "dims {:?} vs {:?} with identical data compare equal", dl, rev);
        }
    }
    vensure!(catch(|| Tensor::<i64, D>::from_vec(dims, vec![0; len - 1])).is_err(), "from_vec-length-mismatch-accepted", "dims {:?}: from_vec accepted len-1 elements", dl);
    st.nontrivial = true;
    st.label("large-extent-shape");
    Ok(st)
}

fn io_ints<const D: usize>(dv: &[u8], vals: &[i64]) -> CaseResult {
    let dims = arr::<D>(dv);
    let len: usize = dims.iter().product();
    let data: Vec<i64> = (0..len).map(|i| vals[i % vals.len().max(1)]).collect();
    let t = Tensor::<i64, D>::from_vec(dims, data.clone());
    let text = written(&t);
    let mut rd = Reader::new(Box::new(text.as_bytes()));
    let back = Tensor::<i64, D>::read(dims, &mut rd);
    vensure!(back.iter().cloned().collect::<Vec<_>>() == data && back == t, "io-roundtrip", "dims {:?}: i64 tensor written as {:?} read back as {:?}", dv, text, back.iter().collect::<Vec<_>>());
    // the usual shape of an input: the dimensions first, then the tensor - and a second tensor of one-digit elements behind it -
    // all through ONE writer and read back through ONE reader that is no longer fresh when the tensors are read
    let small: Vec<u8> = (0..len).map(|i| (vals[i % vals.len().max(1)].unsigned_abs() % 10) as u8).collect();
    let t2 = Tensor::<u8, D>::from_vec(dims, small.clone());
    let mut out = Vec::new();
    {
        let mut w = rlib_io::Writer::new(Box::new(&mut out));
        w.write(&dims.to_vec());
        w.write_char('\n');
        w.write(&t);
        w.write_char('\n');
        w.write(&t2);
        // (no trailing newline: the input ends right after the last element)
    }
    let mut rd = Reader::new(Box::new(std::io::Cursor::new(out.clone())));
    let dims_back: Vec<usize> = rd.read_vec(D);
    vensure!(dims_back == dims.to_vec(), "io-roundtrip", "dims {:?} written and read back as {:?}", dv, dims_back);
    let b1 = Tensor::<i64, D>::read(dims, &mut rd);
    let b2 = Tensor::<u8, D>::read(dims, &mut rd);
    vensure!(b1 == t && b2 == t2 && b2.iter().cloned().collect::<Vec<_>>() == small, "io-roundtrip", "dims {:?}: the shape and two tensors written through one writer ({:?}) read back through one reader as {:?} and {:?}", dv, String::from_utf8_lossy(&out), b1.iter().collect::<Vec<_>>(), b2.iter().collect::<Vec<_>>());
    vensure!(rd.is_eof(), "io-roundtrip", "dims {:?}: input not exhausted after reading both tensors", dv);
    let mut st = CaseStats::default();
    st.nontrivial = D >= 2 && data.iter().any(|&v| v < 0);
    Ok(st)
}

fn io_words<const D: usize>(dv: &[u8], vals: &[String]) -> CaseResult {
    let dims = arr::<D>(dv);
    let len: usize = dims.iter().product();
    let data: Vec<String> = (0..len).map(|i| vals[i % vals.len().max(1)].clone()).collect();
    let t = Tensor::<String, D>::from_vec(dims, data.clone());
    let text = written(&t);
    let mut rd = Reader::new(Box::new(text.as_bytes()));
    let back = Tensor::<String, D>::read(dims, &mut rd);
    vensure!(back.iter().cloned().collect::<Vec<_>>() == data && back == t, "io-roundtrip", "dims {:?}: String tensor written as {:?} read back differently", dv, text);
    let mut st = CaseStats::default();
    st.nontrivial = D >= 2;
    Ok(st)
}

fn eq<const D: usize>(da: &[u8], db: &[u8], differ_at: Option<u16>) -> CaseResult {
    let (a, b) = (arr::<D>(da), arr::<D>(db));
    let len: usize = a.iter().product();
    let data: Vec<i64> = (0..len as i64).collect();
    let mut d2 = data.clone();
    if let Some(k) = differ_at {
        let k = k as usize % len;
        d2[k] += 1;
    }
    let x = Tensor::<i64, D>::from_vec(a, data);
    let y = Tensor::<i64, D>::from_vec(b, d2);
    let want = a == b && differ_at.is_none();
    vensure!(
        (x == y) == want,
        if a != b { "eq-ignores-shape" } else { "eq" },
        "tensors with dims {:?} and {:?} and {} data compare {}, expected {}",
        a, b, if differ_at.is_none() { "identical" } else { "different" }, x == y, want
    );
    vensure!((y == x) == want, "eq-asymmetric", "== is not symmetric for dims {:?} / {:?}", a, b);
    // Clone::clone_from must produce the source tensor (shape included), whatever the destination held
    let mut z = x.clone();
    z.clone_from(&y);
    vensure!(z == y && z.dims() == y.dims(), "clone_from", "after a.clone_from(&b) with dims {:?} <- {:?}: a has dims {:?} and a == b is {}", a, b, z.dims(), z == y);
    let last: Vec<usize> = b.iter().map(|d| d - 1).collect();
    let mut li = [0usize; D];
    li.copy_from_slice(&last);
    vensure!(catch(|| z[li]).ok() == y.iter().last().cloned(), "clone_from", "after clone_from the last valid index of the source shape {:?} does not address its last element", b);
    let c2 = y.clone();
    vensure!(c2 == y && c2.dims() == y.dims(), "clone", "clone() differs from the original for dims {:?}", b);
    if differ_at.is_none() {
        // the same through other element types: zero-sized, heap-owning, nested
        eq_typed::<(), D>("()", a, b, |_| ())?;
        eq_typed::<String, D>("String", a, b, |i| format!("e{}", i))?;
        eq_typed::<Vec<u8>, D>("Vec<u8>", a, b, |i| vec![i as u8; i % 3])?;
        eq_typed::<(u8, bool), D>("(u8, bool)", a, b, |i| (i as u8, i % 2 == 0))?;
    }
    let mut st = CaseStats::default();
    st.nontrivial = a != b;
    if a != b {
        st.label("same-data-different-shape");
    }
    Ok(st)
}

fn eq_typed<T: Clone + PartialEq + std::fmt::Debug, const D: usize>(ty: &str, a: [usize; D], b: [usize; D], mk: impl Fn(usize) -> T) -> Result<(), Violation> {
    let len: usize = a.iter().product();
    let data: Vec<T> = (0..len).map(&mk).collect();
    let (x, y) = (Tensor::<T, D>::from_vec(a, data.clone()), Tensor::<T, D>::from_slice(b, &data));
    vensure!((x == y) == (a == b) && (y == x) == (a == b), if a != b { "eq-ignores-shape" } else { "eq" }, "Tensor<{}> with dims {:?} and {:?} and identical data compare {}, expected {}", ty, a, b, x == y, a == b);
    vensure!(x == x.clone(), "eq", "Tensor<{}> with dims {:?} is not equal to its clone", ty, a);
    let mut z = x.clone();
    z.clone_from(&y);
    vensure!(z == y && z.dims() == y.dims(), "clone_from", "Tensor<{}>: after a.clone_from(&b) with dims {:?} <- {:?}: a has dims {:?} and a == b is {}", ty, a, b, z.dims(), z == y);
    vensure!(x.iter().count() == len && y.iter().cloned().collect::<Vec<T>>() == data, "iter", "Tensor<{}> with dims {:?}: iteration does not return the construction data", ty, b);
    Ok(())
}

macro_rules! by_rank {
    ($d:expr, $f:ident ( $($args:expr),* )) => {
        match $d {
            1 => $f::<1>($($args),*),
            2 => $f::<2>($($args),*),
            3 => $f::<3>($($args),*),
            _ => $f::<4>($($args),*),
        }
    };
}

fn valid(d: &[u8]) -> bool {
    !d.is_empty() && d.len() <= 4 && d.iter().all(|&x| x >= 1 && x <= 6)
}

fn run_case(c: &Case) -> CaseResult {
    match c {
        Case::Shape { dims } if valid(dims) => by_rank!(dims.len(), shape(dims)),
        Case::IoInts { dims, vals } if valid(dims) && !vals.is_empty() => by_rank!(dims.len(), io_ints(dims, vals)),
        Case::IoWords { dims, vals } if valid(dims) && !vals.is_empty() && vals.iter().all(|s| !s.is_empty()) => by_rank!(dims.len(), io_words(dims, vals)),
        Case::Eq { dims_a, dims_b, differ_at } if valid(dims_a) && valid(dims_b) && dims_a.len() == dims_b.len() && dims_a.iter().map(|&x| x as usize).product::<usize>() == dims_b.iter().map(|&x| x as usize).product::<usize>() => {
            by_rank!(dims_a.len(), eq(dims_a, dims_b, *differ_at))
        }
        Case::Big { dims, seed } if !dims.is_empty() && dims.len() <= 4 && dims.iter().all(|&x| x >= 1) && dims.iter().map(|&x| x as u64).product::<u64>() <= 300_000 => {
            by_rank!(dims.len(), big(dims, *seed))
        }
        _ => Ok(CaseStats::default()),
    }
}

fn shapes(rank: usize, max: u8) -> Vec<Vec<u8>> {
    let mut out = vec![vec![]];
    for _ in 0..rank {
        let mut next = Vec::new();
        for p in &out {
            for k in 1..=max {
                let mut q: Vec<u8> = p.clone();
                q.push(k);
                next.push(q);
            }
        }
        out = next;
    }
    out
}

fn main() {
    let mut ctx = Ctx::init("C19");
    ctx.rule(
        "Cases: every shape of rank 1..3 with extents 1..=5 and rank 4 with extents 1..=4. Per shape: from_vec/from_slice/new/iter/ \
         into_iter/dims agree; every valid multi-index reads element sum(idx[i]*prod(dims[j>i])) of the construction vector and \
         get_index returns that offset (bijection checked); a unique value written through IndexMut at every index is read back through \
         iter() in row-major order; every index that exceeds exactly one dimension (by 0, by 1, up to the largest value whose \
         flattened offset is still inside the storage, and huge values 2^32, 2^62, 2^63, MAX, ~MAX/stride whose product with the stride wraps in builds without overflow checks) must panic for Index and IndexMut (observed with catch_unwind); wrong data \
         lengths and zero extents must panic in from_vec, from_slice, new and read; writing then Tensor::read(dims) gives an equal tensor \
         and the written tokens are the elements in iter() order. Equality: all pairs of shapes of equal rank and element count with \
         identical data must compare unequal unless the dims are equal (element types i64, (), String, Vec<u8>, (u8, bool)); equal dims with one differing element compare unequal. \
         22 shapes with large extents (255..65537 in one dimension) are checked on 1500 sampled indices each. Generated i64 (full range) and String element values for the IO round trip; also the shape, the tensor and a second tensor of one-digit elements through one writer and back through one (then no longer fresh) reader, the input ending right after the last element. Non-trivial = rank >= 2 (the invalid dimension is \
         then not always the last one) / shapes that differ. Distinct = distinct (sub-check, case).",
    );
    ctx.assume("panics demanded by the contract (out-of-range index, zero extent, length mismatch) are expected outcomes and asserted as such");
    ctx.replayer("tensor-case", |v| run_case(&serde_json::from_value::<Case>(v.clone()).expect("case")));
    ctx.begin();
    for rank in 1..=4usize {
        let max = if rank == 4 { 4 } else { 5 };
        ctx.exhaustive(&format!("shapes-rank{}", rank), "tensor-case", &format!("all shapes of rank {} with extents 1..={}", rank, max), true, shapes(rank, max).into_iter().map(|dims| Case::Shape { dims }), run_case);
    }
    for rank in 1..=4usize {
        let max = if rank == 4 { 4 } else { 5 };
        let all = shapes(rank, max);
        let mut pairs = Vec::new();
        for a in &all {
            for b in &all {
                let (pa, pb): (usize, usize) = (a.iter().map(|&x| x as usize).product(), b.iter().map(|&x| x as usize).product());
                if pa == pb {
                    pairs.push(Case::Eq { dims_a: a.clone(), dims_b: b.clone(), differ_at: None });
                    if a == b {
                        pairs.push(Case::Eq { dims_a: a.clone(), dims_b: b.clone(), differ_at: Some((pa / 2) as u16) });
                    }
                }
            }
        }
        ctx.exhaustive(&format!("equality-rank{}", rank), "tensor-case", "all pairs of shapes of equal rank and element count, identical data; plus one differing element for equal shapes", true, pairs, run_case);
    }
    let bigs: Vec<Vec<u32>> = vec![
        vec![300], vec![65536], vec![65537], vec![70000], vec![255], vec![256], vec![257], vec![2, 300], vec![300, 2], vec![256, 256], vec![257, 255], vec![1, 65537], vec![65537, 1],
        vec![3, 3, 300], vec![300, 3, 3], vec![3, 300, 3], vec![2, 2, 2, 300], vec![300, 2, 2, 2], vec![16, 16, 16, 16], vec![2, 65536], vec![65536, 2], vec![512, 129],
    ];
    ctx.exhaustive("large-extents", "tensor-case", "22 shapes with extents beyond 255 / 65535, 1500 sampled indices each", false, bigs.into_iter().enumerate().map(|(i, dims)| Case::Big { dims, seed: i as u32 }), run_case);
    let dims = || (1usize..=4).prop_flat_map(|r| prop::collection::vec(1u8..=4, r));
    let ival = prop_oneof![any::<i64>(), Just(i64::MIN), Just(i64::MAX), -10i64..10];
    ctx.prop_split("io-i64", "tensor-case", ctx.n(3_000, 1_000_000), ctx.parts(), (dims(), prop::collection::vec(ival, 1..20)).prop_map(|(dims, vals)| Case::IoInts { dims, vals }).boxed(), run_case);
    ctx.prop("io-string", "tensor-case", ctx.n(2_000, 600_000), (dims(), prop::collection::vec("[!-~]{1,6}", 1..12)).prop_map(|(dims, vals)| Case::IoWords { dims, vals }), run_case);
    ctx.finish();
}
