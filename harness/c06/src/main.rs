//! C06: Modular<M> is Z/M. Reference: u128 / i128 arithmetic.

use proptest::prelude::*;
use rlib_io::{Reader, Writer};
use rlib_mint::Modular;
use serde::{Deserialize, Serialize};
use vcore::{vensure, CaseResult, CaseStats, Ctx, Violation};

#[derive(Clone, Debug, Hash, Serialize, Deserialize, PartialEq)]
struct Case {
    m: u32,
    x: u32,
    y: u32,
    e: u64,
    v: i64,
}

fn gcd(a: u64, b: u64) -> u64 {
    if b == 0 {
        a
    } else {
        gcd(b, a % b)
    }
}

fn powmod(mut a: u128, mut e: u64, m: u128) -> u128 {
    let mut r = 1 % m;
    a %= m;
    while e > 0 {
        if e & 1 == 1 {
            r = r * a % m;
        }
        a = a * a % m;
        e >>= 1;
    }
    r
}

fn written<const M: u32>(x: Modular<M>) -> String {
    let mut out = Vec::new();
    {
        let mut w = Writer::new(Box::new(&mut out));
        w.write(&x);
    }
    String::from_utf8(out).unwrap()
}

/// Many values through ONE writer and ONE reader (more than the 64 KiB the io layer buffers): residues, vectors and tuples of
/// residues written, the text compared, then i64 tokens of every length up to 20 characters read back as residues - the first token
/// long and at offset 0, others placed at multiples of 65536.
#[derive(Clone, Debug, Hash, Serialize, Deserialize, PartialEq)]
struct Bulk {
    m: u32,
    count: u32,
    seed: u64,
}

fn bulk_io<const M: u32>(b: &Bulk) -> CaseResult {
    let mut st = CaseStats::default();
    let n = b.count.min(60_000) as usize;
    let mut r = vcore::SplitMix(b.seed ^ M as u64);
    // ---- writing
    let vals: Vec<i64> = (0..n)
        .map(|i| match i % 5 {
            0 => r.next() as i64,
            1 => (r.next() % 1000) as i64 - 500,
            2 => (M as i64) * ((r.next() % 7) as i64 - 3) + (r.next() % 3) as i64 - 1,
            3 => (r.next() as i64) >> (r.next() % 60),
            _ => (r.next() % (M as u64)) as i64,
        })
        .collect();
    let mut out = Vec::new();
    let mut want = String::new();
    {
        let mut w = Writer::new(Box::new(&mut out));
        let mut i = 0;
        while i < n {
            let x = Modular::<M>::new(vals[i]);
            match i % 7 {
                0 if i + 3 <= n => {
                    let v: Vec<Modular<M>> = vals[i..i + 3].iter().map(|&v| Modular::<M>::new(v)).collect();
                    w.write(&v);
                    want.push_str(&vals[i..i + 3].iter().map(|v| (*v as i128).rem_euclid(M as i128).to_string()).collect::<Vec<_>>().join(" "));
                    i += 3;
                }
                1 if i + 2 <= n => {
                    let t = (x, 7u8, Modular::<M>::new(vals[i + 1]));
                    w.write(&t);
                    want.push_str(&format!("{} 7 {}", (vals[i] as i128).rem_euclid(M as i128), (vals[i + 1] as i128).rem_euclid(M as i128)));
                    i += 2;
                }
                _ => {
                    w.write(&x);
                    want.push_str(&(vals[i] as i128).rem_euclid(M as i128).to_string());
                    i += 1;
                }
            }
            w.write_char(if i % 11 == 0 { '\n' } else { ' ' });
            want.push(if i % 11 == 0 { '\n' } else { ' ' });
        }
    }
    let got = String::from_utf8_lossy(&out);
    if got != want {
        let d = got.bytes().zip(want.bytes()).position(|(a, b)| a != b).unwrap_or(got.len().min(want.len()));
        return Err(Violation::new("writable", format!("M={}: {} residues written through one writer: output differs from the expected text at byte {} of {} (got {:?}, expected {:?})", M, n, d, want.len(), &got[d.min(got.len())..(d + 30).min(got.len())], &want[d.min(want.len())..(d + 30).min(want.len())])));
    }
    // ---- reading: tokens of all lengths; the first one long and at offset 0; every so often a token is placed at a multiple of 65536
    let mut text = String::new();
    let mut toks: Vec<i64> = Vec::new();
    let mut next_mark = 65_536usize;
    for i in 0..n {
        let v: i64 = if i == 0 { i64::MIN + (b.seed % 1000) as i64 } else { vals[(i * 7 + 3) % n] };
        if i > 0 {
            if text.len() + 1 < next_mark && text.len() + 40 >= next_mark {
                // pad so that this token starts exactly at the mark
                while text.len() < next_mark {
                    text.push(' ');
                }
                next_mark += 65_536;
            } else {
                text.push(if i % 13 == 0 { '\n' } else { ' ' });
            }
        }
        text.push_str(&v.to_string());
        toks.push(v);
    }
    let mut rd = Reader::new(Box::new(std::io::Cursor::new(text.into_bytes())));
    for (i, &v) in toks.iter().enumerate() {
        let x: Modular<M> = rd.read();
        let wantr = (v as i128).rem_euclid(M as i128);
        vensure!(x.inner() as i128 == wantr, "readable", "M={}: token #{} ({}) of {} read through one reader gives the residue {}, expected {}", M, i, v, toks.len(), x.inner(), wantr);
    }
    vensure!(rd.is_eof(), "readable", "M={}: input not exhausted after reading all {} tokens", M, toks.len());
    st.nontrivial = want.len() > 65_536;
    st.size = n as u64;
    st.label("bulk-io-through-one-writer-and-one-reader");
    Ok(st)
}

fn bulk_dispatch(b: &Bulk) -> CaseResult {
    match b.m {
        2 => bulk_io::<2>(b),
        7 => bulk_io::<7>(b),
        998244353 => bulk_io::<998244353>(b),
        1000000007 => bulk_io::<1000000007>(b),
        2147483647 => bulk_io::<2147483647>(b),
        1073741824 => bulk_io::<1073741824>(b),
        _ => bulk_io::<65537>(b),
    }
}

fn check<const M: u32>(c: &Case) -> CaseResult {
    let mut st = CaseStats::default();
    let m = M as i128;
    let (xr, yr) = (c.x % M, c.y % M);
    let x = Modular::<M>::new(xr as i64);
    let y = Modular::<M>::new(yr as i64);
    macro_rules! canon {
        ($what:expr, $got:expr, $want:expr) => {{
            let got: Modular<M> = $got;
            let w0: i128 = $want; let want: i128 = w0.rem_euclid(m);
            vensure!(got.inner() < M, "representative-out-of-range", "M={} {}: stored representative {} is not in [0, M)  (x={}, y={}, e={}, v={})", M, $what, got.inner(), xr, yr, c.e, c.v);
            vensure!(got.inner() as i128 == want, $what, "M={} {}: got {}, expected {}  (x={}, y={}, e={}, v={})", M, $what, got.inner(), want, xr, yr, c.e, c.v);
            vensure!(got == Modular::<M>::new(want as i64), "eq-not-canonical", "M={} {}: result with residue {} does not compare equal to new({})", M, $what, got.inner(), want);
        }};
    }
    let (xi, yi) = (xr as i128, yr as i128);
    vensure!(Modular::<M>::md() == M, "md", "md() = {}", Modular::<M>::md());
    // constructor
    canon!("new", Modular::<M>::new(c.v), c.v as i128);
    canon!("new(x)", x, xi);
    canon!("add", x + y, xi + yi);
    canon!("sub", x - y, xi - yi);
    canon!("mul", x * y, xi * yi);
    canon!("neg", -x, -xi);
    let mut t = x;
    t += y;
    canon!("add_assign", t, xi + yi);
    let mut t = x;
    t -= y;
    canon!("sub_assign", t, xi - yi);
    let mut t = x;
    t *= y;
    canon!("mul_assign", t, xi * yi);
    canon!("pow", x.pow(c.e), powmod(xr as u128, c.e, M as u128) as i128);
    canon!("ZERO", Modular::<M>::ZERO, 0);
    canon!("ONE", Modular::<M>::ONE, 1);
    if xi + yi >= m || xi - yi < 0 || c.v < 0 || xr >= 1 << 30 || yr >= 1 << 30 {
        st.nontrivial = true;
    }
    if gcd(yr as u64, M as u64) == 1 {
        let q = x / y;
        vensure!(q.inner() < M, "representative-out-of-range", "M={} div: representative {} out of range", M, q.inner());
        canon!("div-times-divisor", q * y, xi);
        canon!("inv-times-self", y.inv() * y, 1);
        let mut t = x;
        t /= y;
        vensure!(t == q, "div_assign", "M={}: {} /= {} gives {}, / gives {}", M, xr, yr, t.inner(), q.inner());
        st.label("coprime-division");
    } else {
        st.label("non-coprime-division-skipped");
    }
    // printing and IO go through the canonical representative
    let r = x * y - Modular::<M>::new(c.v);
    let want = (xi * yi - c.v as i128).rem_euclid(m).to_string();
    vensure!(format!("{}", r) == want, "display", "M={}: Display gives {}, expected {}", M, r, want);
    vensure!(format!("{:?}", r) == want, "debug", "M={}: Debug gives {:?}, expected {}", M, r, want);
    let w = written(r);
    vensure!(w == want, "writable", "M={}: Writer produced {:?}, expected {}", M, w, want);
    let text = format!("{} {}", w, c.v);
    let mut rd = Reader::new(Box::new(text.as_bytes()));
    let back: Modular<M> = rd.read();
    vensure!(back == r && back.inner() < M, "read-back", "M={}: wrote {} and read back {}", M, want, back.inner());
    let fromv: Modular<M> = rd.read();
    canon!("readable", fromv, c.v as i128);
    Ok(st)
}

macro_rules! moduli {
    ($($m:literal),* $(,)?) => {
        const MODULI: &[u32] = &[$($m),*];
        fn dispatch(c: &Case) -> CaseResult {
            match c.m {
                $($m => check::<$m>(c),)*
                _ => Err(Violation::new("harness/unknown-modulus", format!("modulus {} is not instantiated", c.m))),
            }
        }
    };
}

moduli!(
    2, 3, 4, 5, 6, 7, 8, 9, 10, 11, 12, 13, 14, 15, 16, 17, 18, 19, 20, 21, 22, 23, 24, 25, 26, 27, 28, 29, 30, 31, 32, 33, 34, 35, 36, 37, 38, 39, 40, 41,
    42, 43, 44, 45, 46, 47, 48, 49, 50, 51, 52, 53, 54, 55, 56, 57, 58, 59, 60, 61, 62, 63, 64, 97, 251, 256, 65521, 65536, 65537, 998244353, 1000000007,
    1000000009, 1073741824, 2147483647, 2147483646, 2147483645, 2147483629, 2147395600, 223092870, 2000000011, 1999999973, 1234567890, 1048576, 46341, 2147302921,
    65, 81, 100, 121, 127, 128, 243, 255, 1009, 4099, 32768, 32771, 1000003, 16777216, 16777259, 536870912, 715827883, 1431655765, 2147483587, 2000000000,
    // Carmichael numbers and strong pseudoprimes (to base 2; to bases 2,3; to bases 2,3,5): composites a primality shortcut takes for primes
    561, 1105, 1729, 2465, 2821, 6601, 8911, 41041, 825265, 321197185, 2047, 3277, 4033, 4681, 8321, 1373653, 1530787, 25326001, 161304001, 960946321, 1157839381
);

const EXTREME_V: [i64; 12] = [i64::MIN, i64::MIN + 1, -1, 0, 1, i64::MAX - 1, i64::MAX, -(1 << 31), 1 << 31, -(1 << 32), 1 << 32, (1 << 62) + 12345];
const EXTREME_E: [u64; 8] = [0, 1, 2, 3, u64::MAX, 1 << 32, (1 << 63) + 1, 1_000_000_006];

fn operand(m: u32) -> BoxedStrategy<u32> {
    let specials = vec![0, 1, 2 % m, m - 1, m.saturating_sub(2), m / 2, (m + 1) / 2, (m as f64).sqrt() as u32 % m, ((m as f64).sqrt() as u32 + 1) % m];
    prop_oneof![2 => prop::sample::select(specials), 3 => 0..m, 1 => (0..m).prop_map(move |x| m - 1 - x % 1000.min(m))].boxed()
}

fn case_for(m: u32) -> impl Strategy<Value = Case> {
    let mi = m as i64;
    let v = prop_oneof![
        2 => prop::sample::select(EXTREME_V.to_vec()),
        2 => any::<i64>(),
        2 => (-3i64..=3, -1i64..=1).prop_map(move |(k, d)| k * mi + d),
        1 => (any::<i64>()).prop_map(move |k| (k / mi) * mi),
    ];
    let e = prop_oneof![2 => prop::sample::select(EXTREME_E.to_vec()), 1 => Just(m as u64 - 1), 1 => Just(m as u64), 2 => any::<u64>(), 2 => 0u64..70];
    (operand(m), operand(m), e, v).prop_map(move |(x, y, e, v)| Case { m, x, y, e, v })
}

fn main() {
    let mut ctx = Ctx::init("C06");
    ctx.rule(
        "Cases are (modulus M, operands x,y in [0,M), exponent e, constructor argument v). Moduli: every 2..=64 plus 63 larger ones (competition \
         primes, Carmichael numbers and strong pseudoprimes to the bases 2, 3, 5, powers of two up to 2^30, 2^31-1, 2^31-2, 2^31-3, 2^31-19, squares 46340^2 and 46339^2... composites), one monomorphic \
         instantiation each. For M<=32 (quick) / M<=64 (thorough) all operand pairs are enumerated with all constructor arguments in \
         [-3M,3M] and the extreme i64 values and a fixed exponent set; other moduli get generated cases biased to {0,1,2,M-1,M-2,M/2,sqrt M}, \
         constructor args {MIN, MAX, kM+-1, +-2^31, +-2^32, random}, exponents {0,1,2,M-1,M,2^32,u64::MAX,random}. Oracle: i128/u128 \
         arithmetic mod M for new, +,-,*,neg, the assigning forms and pow; representative in [0,M) and == new(expected) after every \
         operation; for gcd(y,M)=1: (x/y)*y==x, inv(y)*y==1, /= agrees with /; Display, Debug and Writer print the representative in \
         decimal; Reader of a decimal i64 token equals new(v) and a written value reads back equal; sub-check bulk-io pushes tens of thousands of residues (single, in vectors, in tuples) through ONE writer and as many i64 tokens of every length through ONE reader (more than the io layer buffers; the first token long and at offset 0, tokens placed at multiples of 65536). Non-trivial = a result that needed \
         the conditional subtraction / negative lift (x+y>=M, x-y<0, v<0) or an operand >= 2^30. Distinct = distinct (sub-check, case).",
    );
    ctx.assume("division by a value not coprime to M is unspecified and skipped (counted under non-coprime-division-skipped)");
    ctx.replayer("mint-case", |v| dispatch(&serde_json::from_value::<Case>(v.clone()).expect("case")));
    ctx.begin();
    let exh_limit = ctx.n(32, 64) as u32;
    for &m in MODULI.iter().filter(|&&m| m <= exh_limit) {
        let mi = m as i64;
        let mut vs: Vec<i64> = (-3 * mi..=3 * mi).collect();
        vs.extend_from_slice(&EXTREME_V);
        let vs2 = vs.clone();
        let pairs = (0..m).flat_map(move |x| (0..m).map(move |y| (x, y)));
        let cases = pairs.enumerate().map(move |(k, (x, y))| Case { m, x, y, e: EXTREME_E[k % EXTREME_E.len()].wrapping_add((k / 8) as u64 % 5), v: vs2[k % vs2.len()] });
        let extra = vs.iter().enumerate().map(move |(k, &v)| Case { m, x: k as u32 % m, y: (k as u32 * 7 + 1) % m, e: k as u64 % 67, v }).collect::<Vec<_>>();
        ctx.exhaustive(
            &format!("exhaustive-M{}", m),
            "mint-case",
            &format!("all {} operand pairs mod {}, all constructor arguments in [-3M,3M] and 12 extreme i64 values", m * m, m),
            true,
            cases.chain(extra),
            dispatch,
        );
    }
    // the same representative inverted / divided by in one modulus after the other (state that is keyed by the value but shared by
    // all instantiations, e.g. a static inside a generic function)
    {
        let mut inter = Vec::new();
        for &v in &[2u32, 3, 5, 7, 10, 11, 13, 64, 97, 255, 1000, 4097, 65537, 1_000_003] {
            for (k, &m) in MODULI.iter().enumerate() {
                if v < m && gcd(v as u64, m as u64) == 1 {
                    inter.push(Case { m, x: (k as u32 * 31 + 1) % m, y: v, e: 3, v: k as i64 - 40 });
                }
            }
        }
        ctx.exhaustive("one-divisor-through-all-moduli", "mint-case", "14 divisors, each inverted and divided by in every modulus it is coprime to, one modulus right after the other", false, inter, dispatch);
    }
    ctx.replayer("mint-bulk", |v| bulk_dispatch(&serde_json::from_value::<Bulk>(v.clone()).expect("case")));
    {
        let bulks: Vec<Bulk> = [2u32, 7, 65537, 998244353, 1000000007, 1073741824, 2147483647].iter().enumerate().map(|(i, &m)| Bulk { m, count: 24_000 + 1000 * i as u32, seed: 17 + i as u64 }).collect();
        ctx.exhaustive("bulk-io", "mint-bulk", "24000..30000 residues (also in vectors and tuples) through one writer, then as many i64 tokens of every length through one reader, 7 moduli", false, bulks, bulk_dispatch);
    }
    let per = ctx.n(2_000, 600_000);
    for &m in MODULI.iter().filter(|&&m| m > exh_limit) {
        ctx.prop(&format!("generated-M{}", m), "mint-case", per, case_for(m), dispatch);
    }
    ctx.finish();
}
