//! C14: draws respect their range (for every raw generator output) and seed; shuffle is a fair permutation;
//! small-range draws are not periodic.

use proptest::prelude::*;
use rlib_rand::randomable::Randomable;
use rlib_rand::{Rand, Rng};
use serde::{Deserialize, Serialize};
use serde_json::json;
use vcore::{vensure, CaseResult, CaseStats, Ctx, SplitMix, Violation};

#[derive(Clone, Debug, Hash, Serialize, Deserialize, PartialEq)]
enum Case {
    /// ty: 0 i8,1 u8,2 i16,3 u16,4 i32,5 u32,6 i64,7 u64,8 isize,9 usize; form: 0 a..b, 1 a..=b, 2 ..b, 3 ..=b, 4 ..
    Member { ty: u8, form: u8, start: i128, end: i128, raw: u64 },
    Float { start_bits: u64, end_bits: u64, raw: u64 },
    Determinism { seed: u64 },
    ShuffleIsPermutation { seed: u64, data: Vec<u8> },
    /// shuffle statistics over `seeds` random 64-bit seeds derived from `base`
    ShuffleFair { len: u8, seeds: u32, base: u64 },
    /// shuffle statistics over the arithmetic seed family `start, start+stride, ...` (stride 1 = consecutive seeds)
    ShuffleFairFamily { len: u8, seeds: u32, start: u64, stride: u64 },
    /// 8192 draws from next(0..len) (len = 0 means the full u8 range `..`), no period <= 2048
    Period { len: u16, seed: u64 },
    /// like Period, drawing through another integer type: 0 u16 (as Period), 1 u8, 2 i8, 3 u32, 4 i32, 5 u64, 6 i64, 7 usize, 8 isize
    PeriodTy { ty: u8, len: u16, seed: u64 },
    /// shuffle of 0..len (lengths around powers of two up to 2^17+1) must be a rearrangement
    ShuffleLen { seed: u64, len: u32 },
    Reach { ty: u8, start: i16, len: u8 },
}

macro_rules! draw_int {
    ($t:ty, $form:expr, $s:expr, $e:expr, $raw:expr) => {{
        let (s, e) = ($s as $t, $e as $t);
        let v: $t = match $form {
            0 => (s..e).gen_from_u64($raw),
            1 => (s..=e).gen_from_u64($raw),
            2 => (..e).gen_from_u64($raw),
            3 => (..=e).gen_from_u64($raw),
            _ => (..).gen_from_u64($raw),
        };
        v as i128
    }};
}

fn bounds(ty: u8) -> (i128, i128) {
    match ty % 10 {
        0 => (i8::MIN as i128, i8::MAX as i128),
        1 => (0, u8::MAX as i128),
        2 => (i16::MIN as i128, i16::MAX as i128),
        3 => (0, u16::MAX as i128),
        4 => (i32::MIN as i128, i32::MAX as i128),
        5 => (0, u32::MAX as i128),
        6 => (i64::MIN as i128, i64::MAX as i128),
        7 => (0, u64::MAX as i128),
        8 => (isize::MIN as i128, isize::MAX as i128),
        _ => (0, usize::MAX as i128),
    }
}

fn draw(ty: u8, form: u8, s: i128, e: i128, raw: u64) -> i128 {
    match ty % 10 {
        0 => draw_int!(i8, form, s, e, raw),
        1 => draw_int!(u8, form, s, e, raw),
        2 => draw_int!(i16, form, s, e, raw),
        3 => draw_int!(u16, form, s, e, raw),
        4 => draw_int!(i32, form, s, e, raw),
        5 => draw_int!(u32, form, s, e, raw),
        6 => draw_int!(i64, form, s, e, raw),
        7 => draw_int!(u64, form, s, e, raw),
        8 => draw_int!(isize, form, s, e, raw),
        _ => draw_int!(usize, form, s, e, raw),
    }
}

/// inclusive [lo, hi] the draw must lie in; None if the range is empty / not expressible (outside the domain)
fn expected(ty: u8, form: u8, s: i128, e: i128) -> Option<(i128, i128)> {
    let (mn, mx) = bounds(ty);
    if s < mn || s > mx || e < mn || e > mx {
        return None;
    }
    match form % 5 {
        0 => (s < e).then_some((s, e - 1)),
        1 => (s <= e).then_some((s, e)),
        2 => (e > 0).then_some((0, e - 1)),
        3 => (e >= 0).then_some((0, e)),
        _ => Some((mn, mx)),
    }
}

const TY_NAMES: [&str; 10] = ["i8", "u8", "i16", "u16", "i32", "u32", "i64", "u64", "isize", "usize"];
const FORM_NAMES: [&str; 5] = ["a..b", "a..=b", "..b", "..=b", ".."];

fn member(ty: u8, form: u8, s: i128, e: i128, raw: u64) -> CaseResult {
    let mut st = CaseStats::default();
    let (lo, hi) = match expected(ty, form, s, e) {
        Some(x) => x,
        None => {
            st.label("empty-range-skipped");
            return Ok(st);
        }
    };
    let v = draw(ty, form % 5, s, e, raw);
    vensure!(
        lo <= v && v <= hi,
        "int/out-of-range",
        "{} range {} with start={} end={} and raw generator output {:#x} drew {}, outside [{}, {}]",
        TY_NAMES[ty as usize % 10], FORM_NAMES[form as usize % 5], s, e, raw, v, lo, hi
    );
    let len = (hi - lo + 1) as u128;
    if len & (len - 1) != 0 {
        st.nontrivial = true;
    }
    Ok(st)
}

/// adversarial raw outputs for a range of `len` values
fn raws(len: u128) -> Vec<u64> {
    let l = len.min(u64::MAX as u128) as u64;
    let mut v = vec![0u64, 1, 2, l.wrapping_sub(1), l, l.wrapping_add(1), l.wrapping_mul(2).wrapping_sub(1), l.wrapping_mul(2), l.wrapping_mul(3).wrapping_add(1)];
    for k in [7u64, 1 << 20, 1 << 40, u64::MAX / l.max(1)] {
        let b = k.wrapping_mul(l);
        v.extend_from_slice(&[b.wrapping_sub(1), b, b.wrapping_add(1)]);
    }
    for p in [31u32, 32, 52, 53, 62, 63] {
        let b = 1u64 << p;
        v.extend_from_slice(&[b - 1, b, b + 1]);
    }
    v.extend_from_slice(&[u64::MAX, u64::MAX - 1, u64::MAX - 1023, u64::MAX - 1024, u64::MAX - 1025, u64::MAX - 2047, u64::MAX - 2049, u64::MAX / 2, u64::MAX / 2 + 1, 0x8000_0000_0000_0000, 0xFFFF_FFFF_0000_0000, 0x0000_0000_FFFF_FFFF]);
    v
}

fn float(start_bits: u64, end_bits: u64, raw: u64) -> CaseResult {
    let mut st = CaseStats::default();
    let (s, e) = (f64::from_bits(start_bits), f64::from_bits(end_bits));
    if !(s.is_finite() && e.is_finite() && s < e) {
        st.label("not-a-finite-nonempty-range-skipped");
        return Ok(st);
    }
    let x = (s..e).gen_from_u64(raw);
    vensure!(
        x >= s && x < e,
        if x == e { "float/end-reached" } else if !x.is_finite() { "float/not-finite" } else { "float/out-of-range" },
        "({:e}..{:e}) with raw generator output {:#x} drew {:e} (bits {:#x}); required start <= x < end",
        s, e, raw, x, x.to_bits()
    );
    if raw >= 1 << 53 {
        st.nontrivial = true;
    }
    if (e - s).is_infinite() {
        st.label("end-minus-start-overflows");
    }
    Ok(st)
}

fn mixed_stream(r: &mut Rng, n: usize) -> Vec<String> {
    let mut out = Vec::with_capacity(n);
    let mut v: Vec<u32> = (0..17).collect();
    for i in 0..n {
        out.push(match i % 7 {
            0 => r.next_raw().to_string(),
            1 => r.next::<i32, _>(-5..17).to_string(),
            2 => r.next::<u8, _>(..).to_string(),
            3 => r.next::<u64, _>(3..=1_000_000_007).to_string(),
            4 => format!("{:?}", r.next::<f64, _>(-1.5..2.5).to_bits()),
            5 => {
                r.shuffle(&mut v);
                format!("{:?}", v)
            }
            _ => r.next::<isize, _>(..=9).to_string(),
        });
    }
    out
}

fn determinism(seed: u64) -> CaseResult {
    let mut a = Rng::from_seed(seed);
    let mut b = Rng::from_seed(seed);
    let sa = mixed_stream(&mut a, 500);
    let mut copy = a; // Copy
    let mut cl = a.clone();
    let sb = mixed_stream(&mut b, 500);
    vensure!(sa == sb, "determinism/seed", "two generators from seed {} produce different streams (first difference at draw {})", seed, sa.iter().zip(sb.iter()).position(|(x, y)| x != y).unwrap_or(0));
    let (t1, t2, t3) = (mixed_stream(&mut a, 500), mixed_stream(&mut copy, 500), mixed_stream(&mut cl, 500));
    vensure!(t1 == t2 && t1 == t3, "determinism/copy", "a copied / cloned generator (seed {}) diverges from the original", seed);
    let mut st = CaseStats::default();
    st.nontrivial = true;
    Ok(st)
}

fn shuffle_perm(seed: u64, data: &[u8]) -> CaseResult {
    let mut r = Rng::from_seed(seed);
    let mut v = data.to_vec();
    r.shuffle(&mut v);
    let (mut a, mut b) = (data.to_vec(), v.clone());
    a.sort();
    b.sort();
    vensure!(a == b, "shuffle/not-a-permutation", "shuffle (seed {}) of {:?} gave {:?}: not a rearrangement of the same elements", seed, data, v);
    let mut st = CaseStats::default();
    st.nontrivial = data.len() >= 2;
    st.size = data.len() as u64;
    Ok(st)
}

fn perm_index(p: &[u8]) -> usize {
    // Lehmer code
    let n = p.len();
    let mut idx = 0;
    for i in 0..n {
        let smaller = p[i + 1..].iter().filter(|&&x| x < p[i]).count();
        idx = idx * (n - i) + smaller;
    }
    idx
}

fn shuffle_fair(len: u8, seeds: u32, base: u64) -> CaseResult {
    let mut sm = SplitMix(base);
    shuffle_fair_over(len, seeds, "random 64-bit", 0, move |_| sm.next())?;
    // the same population of seeds, but the generator has been used before the shuffle (a u8, an f64 and a u32 draw): state that
    // earlier draws leave behind (cached halves, spare values) must not bias the shuffle
    let mut sm = SplitMix(base ^ 0x5EED_5EED);
    shuffle_fair_over(len, seeds, "random 64-bit (generator used for a u8, an f64 and a u32 draw before the shuffle)", 1, move |_| sm.next())?;
    // ... and generators that have already shuffled another slice (of 2, 4, 6, 3 or 5 elements, by seed index)
    let mut sm = SplitMix(base ^ 0x0DD5_EED5);
    shuffle_fair_over(len, seeds, "random 64-bit (generator used for an earlier shuffle of 2..6 elements)", 2, move |_| sm.next())
}

fn shuffle_fair_over(len: u8, seeds: u32, what: &str, warm: u8, mut seed_of: impl FnMut(u64) -> u64) -> CaseResult {
    let n = len as usize;
    let fact: usize = (1..=n).product();
    let mut counts = vec![0u32; fact];
    for k in 0..seeds {
        let mut r = Rng::from_seed(seed_of(k as u64));
        if warm == 1 {
            let _ = r.next::<u8, _>(..);
            let _ = r.next::<f64, _>(0.0..1.0);
            let _ = r.next::<u32, _>(0..3);
        }
        if warm == 2 {
            let mut first: Vec<u8> = (0..[2u8, 4, 6, 3, 5][k as usize % 5]).collect();
            r.shuffle(&mut first);
        }
        let mut v: Vec<u8> = (0..len).collect();
        r.shuffle(&mut v);
        counts[perm_index(&v)] += 1;
    }
    let reached = counts.iter().filter(|&&c| c > 0).count();
    vensure!(
        reached == fact,
        "shuffle/unreachable-permutations",
        "shuffling {} elements with {} {} seeds reached only {} of {} permutations",
        n, seeds, what, reached, fact
    );
    let exp = seeds as f64 / fact as f64;
    let chi2: f64 = counts.iter().map(|&c| (c as f64 - exp).powi(2) / exp).sum();
    let dof = (fact - 1) as f64;
    let limit = dof + 8.0 * (2.0 * dof).sqrt() + 30.0;
    vensure!(
        chi2 < limit,
        "shuffle/chi2",
        "shuffling {} elements over {} {} seeds: chi^2 = {:.1} with {} degrees of freedom (limit {:.1}); frequencies are far from equal",
        n, seeds, what, chi2, dof, limit
    );
    let mut st = CaseStats::default();
    st.nontrivial = true;
    st.size = seeds as u64;
    Ok(st)
}

/// Draws from a small range are, in real programs, interleaved with draws from other ranges: the draws a caller sees
/// "consecutively from the small range" are then every d-th draw of the stream. Returns (d, offset, period) if the
/// sub-sequence of every d-th draw (d = 2, 3, 4) repeats with a period <= 512.
fn decimated_period<T: PartialEq>(s: &[T]) -> Option<(usize, usize, usize)> {
    for d in 2..=4usize {
        for o in 0..d {
            let t: Vec<&T> = s.iter().skip(o).step_by(d).collect();
            for p in 1..=512usize {
                if (0..t.len() - p).all(|i| t[i] == t[i + p]) {
                    return Some((d, o, p));
                }
            }
        }
    }
    None
}

fn period(len: u16, seed: u64) -> CaseResult {
    const W: usize = 8192;
    let mut r = Rng::from_seed(seed);
    let s: Vec<u16> = (0..W).map(|_| if len == 0 { r.next::<u8, _>(..) as u16 } else { r.next::<u16, _>(0..len) }).collect();
    for p in 1..=2048usize {
        if (0..W - p).all(|i| s[i] == s[i + p]) {
            return Err(Violation::new(
                "period",
                format!("8192 consecutive draws from {} with seed {} repeat with period {} (first values {:?})", if len == 0 { "the full u8 range".to_string() } else { format!("0..{}", len) }, seed, p, &s[..12.min(W)]),
            ));
        }
    }
    if let Some((d, o, p)) = decimated_period(&s) {
        return Err(Violation::new("period/every-dth-draw", format!("draws from {} with seed {}: every {}-th draw (starting at draw {}) repeats with period {} - the values a caller sees who interleaves these draws with {} other draw(s)", if len == 0 { "the full u8 range".to_string() } else { format!("0..{}", len) }, seed, d, o, p, d - 1)));
    }
    let mut st = CaseStats::default();
    st.nontrivial = true;
    Ok(st)
}

fn period_ty(ty: u8, len: u16, seed: u64) -> CaseResult {
    const W: usize = 8192;
    let len = len.clamp(2, 120);
    let name = ["u16", "u8", "i8", "u32", "i32", "u64", "i64", "usize", "isize"][ty as usize % 9];
    // mix 0: the judged draws alone; mix 1 / 2: one u64 / one f64 draw of another range between any two judged draws (a caller
    // who interleaves); the judged sub-sequence must have no short period in any of the three streams
    for mix in 0..3u8 {
        let mut r = Rng::from_seed(seed);
        let s: Vec<u64> = (0..W)
            .map(|_| {
                match mix {
                    1 => {
                        let _ = r.next::<u64, _>(..);
                    }
                    2 => {
                        let _ = r.next::<f64, _>(0.0..1.0);
                    }
                    _ => {}
                }
                match ty % 9 {
                    0 => r.next::<u16, _>(0..len) as u64,
                    1 => r.next::<u8, _>(0..len as u8) as u64,
                    2 => (r.next::<i8, _>(-3..(len as i8 - 3)) + 3) as u64,
                    3 => r.next::<u32, _>(7..=(len as u32 + 6)) as u64 - 7,
                    4 => (r.next::<i32, _>(-1000..(len as i32 - 1000)) + 1000) as u64,
                    5 => r.next::<u64, _>(..len as u64),
                    6 => (r.next::<i64, _>(-5..=(len as i64 - 6)) + 5) as u64,
                    7 => r.next::<usize, _>(0..len as usize) as u64,
                    _ => (r.next::<isize, _>(-9..(len as isize - 9)) + 9) as u64,
                }
            })
            .collect();
        let how = ["", " (one u64 draw between any two of them)", " (one f64 draw between any two of them)"][mix as usize];
        vensure!(s.iter().all(|&x| x < len as u64), "member", "a draw of type {} from a range of length {} fell outside it", name, len);
        for p in 1..=2048usize {
            if (0..W - p).all(|i| s[i] == s[i + p]) {
                return Err(Violation::new("period", format!("8192 consecutive {} draws from a range of length {} with seed {}{} repeat with period {} (first values {:?})", name, len, seed, how, p, &s[..12])));
            }
        }
        if let Some((d, o, p)) = decimated_period(&s) {
            return Err(Violation::new("period/every-dth-draw", format!("{} draws from a range of length {} with seed {}{}: every {}-th draw (starting at draw {}) repeats with period {}", name, len, seed, how, d, o, p)));
        }
    }
    let mut st = CaseStats::default();
    st.nontrivial = true;
    Ok(st)
}

fn shuffle_len(seed: u64, len: u32) -> CaseResult {
    let mut r = Rng::from_seed(seed);
    let mut v: Vec<u32> = (0..len).collect();
    r.shuffle(&mut v);
    let moved = v.iter().enumerate().filter(|(i, &x)| *i as u32 != x).count();
    let mut sorted = v.clone();
    sorted.sort_unstable();
    vensure!(sorted.len() == len as usize && sorted.iter().enumerate().all(|(i, &x)| i as u32 == x), "shuffle/not-a-permutation", "shuffle (seed {}) of 0..{} is not a rearrangement of the same elements", seed, len);
    if len >= 64 {
        vensure!(moved * 2 >= len as usize, "shuffle/chi2", "shuffle (seed {}) of 0..{} left {} of {} elements in place", seed, len, len as usize - moved, len);
    }
    let mut st = CaseStats::default();
    st.nontrivial = len >= 2;
    st.size = len as u64;
    Ok(st)
}

fn reach(ty: u8, start: i16, len: u8) -> CaseResult {
    let mut st = CaseStats::default();
    let (mn, mx) = bounds(ty);
    let (s, l) = (start as i128, len as i128);
    if l < 1 || s < mn || s + l - 1 > mx {
        return Ok(st);
    }
    // both forms: s..s+l (if expressible) and s..=s+l-1
    for form in [0u8, 1] {
        let e = if form == 0 { s + l } else { s + l - 1 };
        if e > mx {
            continue;
        }
        let mut hit = vec![false; l as usize];
        let mut left = l as usize;
        let mut feed = |raw: u64, hit: &mut Vec<bool>, left: &mut usize| {
            let v = draw(ty, form, s, e, raw);
            if v >= s && v < s + l && !hit[(v - s) as usize] {
                hit[(v - s) as usize] = true;
                *left -= 1;
            }
        };
        // candidate raws that do not assume the mapping: small raws, equally spaced raws, generator outputs
        for raw in 0..(4 * l as u64) {
            feed(raw, &mut hit, &mut left);
        }
        if left > 0 {
            for k in 0..(4 * l as u128) {
                let b = ((k << 64) / (4 * l as u128)) as u64;
                for d in [0u64, 1, 2] {
                    feed(b.wrapping_add(d), &mut hit, &mut left);
                }
            }
        }
        if left > 0 {
            let mut r = Rng::from_seed(12345);
            for _ in 0..10_000 {
                feed(r.next_raw(), &mut hit, &mut left);
                if left == 0 {
                    break;
                }
            }
        }
        vensure!(
            left == 0,
            "int/unreachable-value",
            "{} range {} start={} len={}: value(s) {:?} are never drawn for any candidate raw output",
            TY_NAMES[ty as usize % 10], FORM_NAMES[form as usize], s, l,
            hit.iter().enumerate().filter(|(_, &h)| !h).map(|(i, _)| s + i as i128).take(5).collect::<Vec<_>>()
        );
    }
    st.nontrivial = len >= 2;
    Ok(st)
}

fn run_case(c: &Case) -> CaseResult {
    match c {
        Case::Member { ty, form, start, end, raw } => member(*ty, *form, *start, *end, *raw),
        Case::Float { start_bits, end_bits, raw } => float(*start_bits, *end_bits, *raw),
        Case::Determinism { seed } => determinism(*seed),
        Case::ShuffleIsPermutation { seed, data } => shuffle_perm(*seed, data),
        Case::ShuffleFair { len, seeds, base } => {
            if *len < 2 || *len > 8 {
                return Ok(CaseStats::default());
            }
            shuffle_fair(*len, *seeds, *base)
        }
        Case::ShuffleFairFamily { len, seeds, start, stride } => {
            if *len < 2 || *len > 8 {
                return Ok(CaseStats::default());
            }
            let (start, stride) = (*start, *stride);
            shuffle_fair_over(*len, *seeds, &format!("seeds {} + k*{}", start, stride), 0, move |k| start.wrapping_add(k.wrapping_mul(stride)))
        }
        Case::Period { len, seed } => period(*len, *seed),
        Case::PeriodTy { ty, len, seed } => period_ty(*ty, *len, *seed),
        Case::ShuffleLen { seed, len } => shuffle_len(*seed, *len),
        Case::Reach { ty, start, len } => reach(*ty, *start, *len),
    }
}

fn boundary_float() -> impl Strategy<Value = f64> {
    prop_oneof![
        3 => any::<f64>().prop_filter("finite", |x| x.is_finite()),
        2 => prop::sample::select(vec![0.0, -0.0, 1.0, -1.0, f64::MAX, f64::MIN, f64::MIN_POSITIVE, -f64::MIN_POSITIVE, 5e-324, -5e-324, 1e16, 1e16 + 2.0, 1e300, -1e300, 10.0, 15.0, 0.1, 1e-300]),
        2 => (-1000.0f64..1000.0),
        1 => (any::<u64>()).prop_map(|b| f64::from_bits(b & 0x000F_FFFF_FFFF_FFFF)),
    ]
}

fn float_case() -> impl Strategy<Value = Case> {
    let raw = prop_oneof![2 => any::<u64>(), 3 => prop::sample::select(raws(1 << 20)), 2 => (0u64..4096).prop_map(|k| u64::MAX - k), 1 => (0u64..64).prop_map(|k| (1u64 << 53).wrapping_add(k).wrapping_sub(32))];
    let pair = prop_oneof![
        3 => (boundary_float(), boundary_float()).prop_map(|(a, b)| if a < b { (a, b) } else { (b, a) }),
        // end - start overflows to infinity
        1 => (0.5f64..1.0, 0.5f64..1.0).prop_map(|(a, b)| (-a * f64::MAX, b * f64::MAX)),
        // ulp-wide and few-ulp-wide ranges
        2 => (boundary_float(), 1u64..4).prop_map(|(a, k)| {
            let b = a.to_bits();
            let hi = if a >= 0.0 { f64::from_bits((b & !(1 << 63)).saturating_add(k)) } else { f64::from_bits(b.saturating_sub(k)) };
            if a < hi { (a, hi) } else { (hi, a) }
        }),
    ];
    (pair, raw).prop_map(|((s, e), raw)| Case::Float { start_bits: s.to_bits(), end_bits: e.to_bits(), raw })
}

fn wide_member() -> impl Strategy<Value = Case> {
    (2u8..10, 0u8..5, any::<i128>(), any::<u64>(), 0u8..8, any::<u64>(), 0usize..64).prop_map(|(ty, form, a, lenraw, shape, raw, ri)| {
        let (mn, mx) = bounds(ty);
        let width = (mx - mn) as u128 + 1;
        let len: u128 = match shape {
            0 => 1,
            1 => 2,
            2 => 1u128 << (lenraw % 63),
            3 => (1u128 << (lenraw % 63)) + 1,
            4 => width - 1,
            5 => width,
            6 => 3.max(lenraw as u128 % 1000),
            _ => (lenraw as u128 % width).max(1),
        };
        let len = len.min(width);
        // start so that [start, start+len-1] fits; bias to the type's ends and to 0
        let room = width - len;
        let off = match (a as u8) % 4 {
            0 => 0,
            1 => room,
            2 => (-mn).max(0) as u128 % (room + 1),
            _ => (a as u128) % (room + 1),
        };
        let start = mn + off as i128;
        let last = start + len as i128 - 1;
        let rs = raws(len);
        let raw = if ri < rs.len() { rs[ri] } else { raw };
        // express as the requested form where possible
        let (form, s, e) = match form {
            0 if last < mx => (0, start, last + 1),
            2 if start == 0 && last < mx => (2, 0, last + 1),
            3 if start == 0 => (3, 0, last),
            4 if len == width => (4, mn, mx),
            _ => (1, start, last),
        };
        Case::Member { ty, form, start: s, end: e, raw }
    })
}

fn main() {
    let mut ctx = Ctx::init("C14");
    ctx.rule(
        "Sub-checks: (a) membership - for i8 and u8 every (start,end) of every range form (a..b, a..=b, ..b, ..=b, ..) crossed with ~50 \
         adversarial raw generator outputs (0, 1, len-1, len, len+1, k*len+-1, 2^31.., 2^53+-1, 2^63+-1, 2^64-1024+-1, 2^64-1), wider \
         types with boundary ranges (length 1, 2, 2^k, 2^k+1, MAX, full width; at MIN, at MAX, around 0): the draw lies in the range; (b) \
         reachability - every 8-bit range of length <= 64 at every start: each value is produced by some raw output from a candidate set \
         that does not assume the mapping; (c) floats - finite half-open f64 ranges (tiny, huge, overflowing end-start, subnormal, ulp-wide, \
         negative) crossed with the raw set: start <= x < end; (d) determinism - equal seeds and Copy/Clone'd generators give equal mixed \
         streams; (e) shuffle - output is a permutation of the input (slices <= 200, and 0..n for n = 2^k-1, 2^k, 2^k+1 up to 2^17+1); for lengths 2..=6 over 2*10^5 random 64-bit seeds, and over 2*10^5 consecutive seeds and arithmetic seed families of stride 1000, 1000003, 2^16, 2^20, \
         every permutation is reached and chi^2 < dof + 8*sqrt(2*dof) + 30; (f) 8192 consecutive draws from 0..len (len in \
         2,3,4,8,16,64,256 and the full u8 range) have no period <= 2048, for 16+ seeds. Non-trivial: (a) range length not a power of two, \
         (c) raw >= 2^53, others always. Distinct = distinct (sub-check, case); the exhaustive 8-bit block is counted as enumerated tuples.",
    );
    ctx.assume("empty ranges are outside the domain (the library asserts) and are not generated");
    ctx.assume("statistical oracles (e), (f) have false-alarm probability < 1e-9 for a fair source and are deterministic in VERIF_SEED");
    ctx.replayer("rand-case", |v| run_case(&serde_json::from_value::<Case>(v.clone()).expect("case")));
    ctx.begin();

    // (a) exhaustive 8-bit membership (distinct by construction; not hashed one by one)
    if ctx.want("membership-8bit") {
        let mut evals = 0u64;
        let mut nontrivial = 0u64;
        let mut failed = false;
        'outer: for ty in 0..2u8 {
            let (mn, mx) = bounds(ty);
            for form in 0..5u8 {
                for s in mn..=mx {
                    if form >= 2 && s != mn {
                        continue; // ..b / ..=b / .. have no start
                    }
                    for e in mn..=mx {
                        if form == 4 && e != mx {
                            continue;
                        }
                        let (lo, hi) = match expected(ty, form, if form >= 2 { 0 } else { s }, e) {
                            Some(x) => x,
                            None => continue,
                        };
                        let len = (hi - lo + 1) as u128;
                        for raw in raws(len) {
                            evals += 1;
                            if len & (len - 1) != 0 {
                                nontrivial += 1;
                            }
                            let c = Case::Member { ty, form, start: if form >= 2 { 0 } else { s }, end: e, raw };
                            if let Err(v) = vcore::guarded(|| run_case(&c)) {
                                ctx.violation("membership-8bit", "rand-case", &c, &v);
                                failed = true;
                                break 'outer;
                            }
                        }
                    }
                }
            }
        }
        ctx.bulk(
            "membership-8bit",
            evals,
            nontrivial,
            !failed,
            "every (start,end) of all five range forms of i8 and u8 x the adversarial raw set",
            json!({"Member": {"ty": 0, "form": 1, "start": -128, "end": 127, "raw": u64::MAX}}),
        );
    }
    ctx.prop_split("membership-wide-types", "rand-case", ctx.n(150_000, 30_000_000), ctx.parts(), wide_member().boxed(), run_case);
    // (b)
    let reach_cases = (0..2u8).flat_map(|ty| {
        let (mn, mx) = bounds(ty);
        (mn..=mx).flat_map(move |s| (1..=64u8).map(move |len| Case::Reach { ty, start: s as i16, len }))
    });
    ctx.exhaustive("reachability-8bit", "rand-case", "every start of i8/u8 x every length 1..=64, both a..b and a..=b", true, reach_cases, run_case);
    // (c)
    ctx.prop_split("float-ranges", "rand-case", ctx.n(200_000, 40_000_000), ctx.parts(), float_case().boxed(), run_case);
    // the documented failing inputs of the pinned tree, as plain cases
    // (d)
    ctx.prop("determinism", "rand-case", ctx.n(300, 6_000), any::<u64>().prop_map(|seed| Case::Determinism { seed }), run_case);
    // (e)
    ctx.prop("shuffle-is-permutation", "rand-case", ctx.n(4_000, 80_000), (any::<u64>(), prop::collection::vec(0u8..6, 0..200)).prop_map(|(seed, data)| Case::ShuffleIsPermutation { seed, data }), run_case);
    let nseeds = ctx.n(200_000, 2_000_000) as u32;
    let maxlen = ctx.n(6, 7) as u8;
    let mut base = ctx.sub_rng("shuffle-fair");
    let fair: Vec<Case> = (2..=maxlen).map(|len| Case::ShuffleFair { len, seeds: if len == 7 { nseeds.max(1_500_000) } else { nseeds }, base: base.next() }).collect();
    ctx.exhaustive("shuffle-fair", "rand-case", "lengths 2..=6 (7 in the thorough tier), random 64-bit seeds; fresh generators, generators already used for a u8, an f64 and a u32 draw, and generators that have shuffled another slice before", false, fair, run_case);
    // the seeds people actually use: consecutive small numbers and arithmetic families. (Families that vary only bits >= 30 of the
    // seed are not a population of 10^5 seeds for an LCG - its low state bits never see them - and are not judged: DESIGN 9.7.)
    let mut fam = Vec::new();
    for len in 2..=6u8 {
        for (start, stride) in [(0u64, 1u64), (base.next() >> 20, 1), (1, 1000), (base.next() >> 32, 1_000_003), (7, 1 << 16), (base.next() >> 24, 1 << 20)] {
            fam.push(Case::ShuffleFairFamily { len, seeds: nseeds, start, stride });
        }
    }
    ctx.exhaustive("shuffle-fair-seed-families", "rand-case", "lengths 2..=6 x {consecutive seeds from 0 and from a generated start, strides 1000, 1000003, 2^16, 2^20}", false, fam, run_case);
    // (f)
    let mut pr = ctx.sub_rng("period");
    let mut seeds: Vec<u64> = vec![0, 1, 42, u64::MAX];
    for _ in 0..ctx.n(14, 60) {
        seeds.push(pr.next());
    }
    let periods: Vec<Case> = [2u16, 3, 4, 8, 16, 64, 256, 0, 6, 10, 100].iter().flat_map(|&len| seeds.iter().map(move |&seed| Case::Period { len, seed })).collect();
    ctx.exhaustive("non-periodicity", "rand-case", "lengths 2,3,4,6,8,10,16,64,100,256 and the full u8 range x 18+ seeds, 8192-draw windows; full period <= 2048 and period <= 512 of every d-th draw, d = 2..4", false, periods, run_case);
    let mut pt = Vec::new();
    for ty in 1..9u8 {
        for len in [2u16, 3, 4, 8, 16, 64, 6, 100] {
            for &seed in seeds.iter().take(6) {
                pt.push(Case::PeriodTy { ty, len, seed });
            }
        }
    }
    ctx.exhaustive("non-periodicity-by-type", "rand-case", "u8, i8, u32, i32, u64, i64, usize, isize draws x range lengths 2,3,4,6,8,16,64,100 (several range forms) x 6 seeds; each stream alone and with one u64 / one f64 draw between any two judged draws; full period <= 2048 and period <= 512 of every d-th draw, d = 2..4", false, pt, run_case);
    let mut sl = Vec::new();
    for k in 1..=17u32 {
        for d in [-1i64, 0, 1] {
            let len = ((1i64 << k) + d) as u32;
            for seed in [1u64, pr.next()] {
                sl.push(Case::ShuffleLen { seed, len });
            }
        }
    }
    ctx.exhaustive("shuffle-lengths-around-powers-of-two", "rand-case", "slices of length 2^k-1, 2^k, 2^k+1 for k = 1..17, two seeds each", false, sl, run_case);
    ctx.finish();
}
