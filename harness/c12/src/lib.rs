//! C12: Bitset<N> vs BTreeSet<usize> over three registers.

use proptest::prelude::*;
use rlib_bitset::Bitset;
use serde::{Deserialize, Serialize};
use std::collections::BTreeSet;
use vcore::{vensure, CaseResult, CaseStats};

#[derive(Clone, Debug, Hash, Serialize, Deserialize, PartialEq)]
pub enum Op {
    Set { r: u8, x: u16 },
    Remove { r: u8, x: u16 },
    Flip { r: u8, x: u16 },
    Clear { r: u8 },
    FromU64 { r: u8, w: u64 },
    Not { r: u8 },
    /// dst = a OP b (reference form); op: 0 and, 1 or, 2 xor
    Bin { dst: u8, a: u8, b: u8, op: u8 },
    /// a OP= b
    BinAssign { a: u8, b: u8, op: u8 },
    Clone { dst: u8, src: u8 },
    New { r: u8 },
    /// `clear()` repeated MANY[k % 6] times on the same object (counters that wrap at 16 bits)
    ClearMany { r: u8, k: u8 },
}

pub const MANY: [u32; 6] = [65535, 65536, 65537, 131071, 131072, 196608];

#[derive(Clone, Debug, Hash, Serialize, Deserialize, PartialEq)]
pub struct Case {
    /// index into CAPS
    pub cap: u8,
    pub ops: Vec<Op>,
}

pub const CAPS: [usize; 9] = [1, 2, 3, 4, 7, 10, 16, 130, 1030];

/// index selector: raw → bit index, biased to word boundaries
fn index(x: u16, bits: usize) -> usize {
    let special = [0usize, 1, 62, 63, 64, 65, 126, 127, 128, 129, bits - 1, bits - 2, bits / 2, bits.saturating_sub(64), bits.saturating_sub(65), 255, 256, 8191, 8192, 8193, 8192 + 63, 16384, 65535, 65536, 65537];
    if x & 1 == 1 {
        let s = special[(x as usize >> 1) % special.len()];
        if s < bits {
            return s;
        }
    }
    (x as usize >> 1) % bits
}

fn observe<const N: usize>(b: &Bitset<N>, m: &BTreeSet<usize>, step: usize, what: &str, touched: &[usize]) -> Result<bool, vcore::Violation> {
    let bits = N * 64;
    let got: Vec<usize> = b.iter_bits().collect();
    let want: Vec<usize> = m.iter().cloned().collect();
    vensure!(got == want, "iter_bits", "step {} N={} {}: iter_bits = {:?}, set = {:?}", step, N, what, got, want);
    vensure!(b.count() == m.len(), "count", "step {} N={} {}: count() = {}, set has {}", step, N, what, b.count(), m.len());
    if want.len() <= 200 && (step % 4 == 0 || !touched.is_empty() && touched[0] % 3 == 0) {
        vcore::adaptors_agree(&format!("step {} N={} iter_bits", step, N), &want, step + touched.first().cloned().unwrap_or(0), || b.iter_bits())?;
    }
    let mut probe: Vec<usize> = vec![0, 63.min(bits - 1), bits - 1];
    for k in 1..N {
        probe.push(64 * k - 1);
        probe.push(64 * k);
    }
    probe.extend_from_slice(touched);
    for &i in &probe {
        vensure!(b.test(i) == m.contains(&i), "test", "step {} N={} {}: test({}) = {}, set membership {}", step, N, what, i, b.test(i), m.contains(&i));
    }
    // is a word-boundary element present?
    Ok(m.iter().any(|&i| i % 64 == 63 || i % 64 == 0 && i > 0))
}

fn render(m: &BTreeSet<usize>, bits: usize) -> String {
    (0..bits).map(|i| if m.contains(&i) { '1' } else { '0' }).collect()
}

/// Every history is interpreted twice: once with the full set of observations after every operation, once "silently" - operations
/// only, observations at the very end - because an observation may itself warm up or repair state (a cached count, a lazily cleared
/// word) and hide what a caller who does not look in between would see.
pub fn run<const N: usize>(c: &Case) -> CaseResult {
    let st = run_mode::<N>(c, true)?;
    run_mode::<N>(c, false).map_err(|v| vcore::Violation::new(format!("{}/without-intermediate-observations", v.sig), format!("(same history, observations only at the end) {}", v.msg)))?;
    Ok(st)
}

fn run_mode<const N: usize>(c: &Case, watch: bool) -> CaseResult {
    let bits = N * 64;
    let mut st = CaseStats::default();
    st.size = c.ops.len() as u64;
    let mut regs: Vec<Bitset<N>> = vec![Bitset::new(), Bitset::new(), Bitset::new()];
    let mut ms: Vec<BTreeSet<usize>> = vec![BTreeSet::new(), BTreeSet::new(), BTreeSet::new()];
    for (i, op) in c.ops.iter().enumerate() {
        let step = i + 1;
        let mut touched = vec![];
        let dst;
        match op {
            Op::Set { r, x } => {
                let (r, x) = (*r as usize % 3, index(*x, bits));
                regs[r].set(x);
                ms[r].insert(x);
                touched.push(x);
                dst = r;
            }
            Op::Remove { r, x } => {
                let (r, x) = (*r as usize % 3, index(*x, bits));
                regs[r].remove(x);
                ms[r].remove(&x);
                touched.push(x);
                dst = r;
            }
            Op::Flip { r, x } => {
                let (r, x) = (*r as usize % 3, index(*x, bits));
                regs[r].flip(x);
                if !ms[r].remove(&x) {
                    ms[r].insert(x);
                }
                touched.push(x);
                dst = r;
            }
            Op::Clear { r } => {
                let r = *r as usize % 3;
                regs[r].clear();
                ms[r].clear();
                dst = r;
            }
            Op::ClearMany { r, k } => {
                let r = *r as usize % 3;
                for _ in 0..MANY[*k as usize % MANY.len()] {
                    regs[r].clear();
                }
                ms[r].clear();
                st.label("clear-repeated-65535-or-more-times");
                dst = r;
            }
            Op::New { r } => {
                let r = *r as usize % 3;
                regs[r] = if step % 2 == 0 { Bitset::new() } else { Bitset::default() };
                ms[r].clear();
                dst = r;
            }
            Op::FromU64 { r, w } => {
                let r = *r as usize % 3;
                regs[r] = Bitset::from_u64(*w);
                ms[r] = (0..64).filter(|b| (w >> b) & 1 == 1).collect();
                dst = r;
            }
            Op::Not { r } => {
                let r = *r as usize % 3;
                let old = std::mem::replace(&mut regs[r], Bitset::new());
                regs[r] = !old;
                ms[r] = (0..bits).filter(|i| !ms[r].contains(i)).collect();
                st.label("complement");
                dst = r;
            }
            Op::Bin { dst: d, a, b, op } => {
                let (d, a, b) = (*d as usize % 3, *a as usize % 3, *b as usize % 3);
                let boundary = ms[a].iter().chain(ms[b].iter()).any(|&i| i % 64 == 63 || (i % 64 == 0 && i > 0));
                let (res, m): (Bitset<N>, BTreeSet<usize>) = match op % 3 {
                    0 => (&regs[a] & &regs[b], ms[a].intersection(&ms[b]).cloned().collect()),
                    1 => (&regs[a] | &regs[b], ms[a].union(&ms[b]).cloned().collect()),
                    _ => (&regs[a] ^ &regs[b], ms[a].symmetric_difference(&ms[b]).cloned().collect()),
                };
                regs[d] = res;
                ms[d] = m;
                if boundary && N > 1 {
                    st.nontrivial = true;
                    st.label("binary-op-with-word-boundary-element");
                }
                dst = d;
            }
            Op::BinAssign { a, b, op } => {
                let (a, b) = (*a as usize % 3, *b as usize % 3);
                let boundary = ms[a].iter().chain(ms[b].iter()).any(|&i| i % 64 == 63 || (i % 64 == 0 && i > 0));
                let rhs = regs[b].clone();
                let mb = ms[b].clone();
                match op % 3 {
                    0 => {
                        regs[a] &= &rhs;
                        ms[a] = ms[a].intersection(&mb).cloned().collect();
                    }
                    1 => {
                        regs[a] |= &rhs;
                        ms[a] = ms[a].union(&mb).cloned().collect();
                    }
                    _ => {
                        regs[a] ^= &rhs;
                        ms[a] = ms[a].symmetric_difference(&mb).cloned().collect();
                    }
                }
                if boundary && N > 1 {
                    st.nontrivial = true;
                    st.label("binary-op-with-word-boundary-element");
                }
                dst = a;
            }
            Op::Clone { dst: d, src } => {
                let (d, s) = (*d as usize % 3, *src as usize % 3);
                if step % 2 == 0 || d == s {
                    regs[d] = regs[s].clone();
                } else {
                    let src = regs[s].clone();
                    regs[d].clone_from(&src);
                }
                ms[d] = ms[s].clone();
                dst = d;
            }
        }
        if !watch {
            continue;
        }
        let b = observe(&regs[dst], &ms[dst], step, "after op", &touched)?;
        if b && N > 1 {
            st.label("iterated-with-word-boundary-element");
            st.nontrivial = true;
        }
        // equality between registers <=> set equality
        for x in 0..3 {
            for y in 0..3 {
                vensure!(
                    (regs[x] == regs[y]) == (ms[x] == ms[y]),
                    "eq",
                    "step {} N={}: registers {} and {} compare {} but their sets are {}",
                    step, N, x, y, regs[x] == regs[y], if ms[x] == ms[y] { "equal" } else { "different" }
                );
            }
        }
        if step % 8 == 0 || step == c.ops.len() {
            let want = render(&ms[dst], bits);
            vensure!(format!("{}", regs[dst]) == want, "display", "step {} N={}: Display = {}, expected {}", step, N, regs[dst], want);
            vensure!(format!("{:?}", regs[dst]) == want, "debug", "step {} N={}: Debug = {:?}, expected {}", step, N, regs[dst], want);
        }
    }
    if !watch {
        for r in 0..3 {
            vensure!(regs[r].count() == ms[r].len(), "count", "end N={}: count() of register {} = {}, set has {}", N, r, regs[r].count(), ms[r].len());
            let nb = !regs[r].clone();
            vensure!(nb.count() == bits - ms[r].len(), "count", "end N={}: count() of the complement of register {} = {}, expected {}", N, r, nb.count(), bits - ms[r].len());
        }
        for x in 0..3 {
            for y in 0..3 {
                vensure!((regs[x] == regs[y]) == (ms[x] == ms[y]), "eq", "end N={}: registers {} and {} compare {} but their sets are {}", N, x, y, regs[x] == regs[y], if ms[x] == ms[y] { "equal" } else { "different" });
            }
        }
    }
    for r in 0..3 {
        observe(&regs[r], &ms[r], c.ops.len() + 1, "end", &[])?;
        let want = render(&ms[r], bits);
        vensure!(format!("{}", regs[r]) == want, "display", "end N={}: Display = {}, expected {}", N, regs[r], want);
    }
    Ok(st)
}

pub fn run_case(c: &Case) -> CaseResult {
    match c.cap % 9 {
        7 => run::<130>(c),
        8 => run::<1030>(c),
        0 => run::<1>(c),
        1 => run::<2>(c),
        2 => run::<3>(c),
        3 => run::<4>(c),
        4 => run::<7>(c),
        5 => run::<10>(c),
        _ => run::<16>(c),
    }
}

pub fn op() -> impl Strategy<Value = Op> {
    let r = || 0u8..3;
    prop_oneof![
        30 => (r(), any::<u16>()).prop_map(|(r, x)| Op::Set { r, x }),
        10 => (r(), any::<u16>()).prop_map(|(r, x)| Op::Remove { r, x }),
        10 => (r(), any::<u16>()).prop_map(|(r, x)| Op::Flip { r, x }),
        2 => r().prop_map(|r| Op::Clear { r }),
        1 => r().prop_map(|r| Op::New { r }),
        4 => (r(), prop_oneof![any::<u64>(), Just(u64::MAX), Just(1u64 << 63), Just(1u64)]).prop_map(|(r, w)| Op::FromU64 { r, w }),
        6 => r().prop_map(|r| Op::Not { r }),
        12 => (r(), r(), r(), 0u8..3).prop_map(|(dst, a, b, op)| Op::Bin { dst, a, b, op }),
        12 => (r(), r(), 0u8..3).prop_map(|(a, b, op)| Op::BinAssign { a, b, op }),
        3 => (r(), r()).prop_map(|(dst, src)| Op::Clone { dst, src }),
        1 => (r(), 0u8..6).prop_map(|(r, k)| Op::ClearMany { r, k }),
    ]
}

pub fn case(cap: Option<u8>, max_ops: usize) -> impl Strategy<Value = Case> {
    let c = match cap {
        Some(c) => Just(c).boxed(),
        None => (0u8..9).boxed(),
    };
    (c, prop::collection::vec(op(), 0..max_ops)).prop_map(|(cap, ops)| Case { cap, ops })
}

pub fn decode(data: &[u8]) -> Option<Case> {
    if data.is_empty() {
        return None;
    }
    let cap = data[0] % 7;
    let mut ops = vec![];
    for b in data[1..].chunks_exact(4) {
        let x = u16::from_le_bytes([b[2], b[3]]);
        let r = b[1] & 3;
        ops.push(match b[0] % 16 {
            0 | 1 | 2 | 3 | 4 => Op::Set { r, x },
            5 => Op::Remove { r, x },
            6 | 7 => Op::Flip { r, x },
            8 => Op::Not { r },
            9 | 10 => Op::Bin { dst: r, a: b[1] >> 2, b: b[1] >> 4, op: b[2] },
            11 | 12 => Op::BinAssign { a: r, b: b[1] >> 2, op: b[2] },
            13 => Op::FromU64 { r, w: (x as u64).wrapping_mul(0x9E3779B97F4A7C15) },
            14 => Op::Clone { dst: r, src: b[1] >> 2 },
            _ => {
                if b[2] & 1 == 0 {
                    Op::Clear { r }
                } else {
                    Op::New { r }
                }
            }
        });
        if ops.len() >= 64 {
            break;
        }
    }
    Some(Case { cap, ops })
}
