use c12::*;
use vcore::Ctx;

fn main() {
    let mut ctx = Ctx::init("C12");
    ctx.rule(
        "Cases are operation histories over three Bitset<N> registers (set, remove, flip, clear, new/default, from_u64, complement, \
         &,|,^ in reference form, &=,|=,^=, clone) for N in {1,2,3,4,7,10,16} and, with fewer and shorter histories, N in {130, 1030} (8320 and 65920 bits), with index selectors biased to word boundaries \
         (0, 63, 64, 65, 127, 128, 64N-1), interpreted against BTreeSet<usize> models. After every op: iter_bits (strictly ascending, \
         equal to the set), count, test on boundary and touched indices, == between all register pairs <=> set equality; Display and \
         Debug rendering (index 0 first) every 8 ops and at the end. Non-trivial = N>1 and an element at a word-boundary index \
         (i%64 in {63,0}) is present when a binary operator or the iterator runs. Distinct = distinct (sub-check, case).",
    );
    ctx.replayer("bitset-history", |v| run_case(&serde_json::from_value::<Case>(v.clone()).expect("case")));
    ctx.begin();
    for cap in 0..7u8 {
        ctx.prop(&format!("histories-N{}", CAPS[cap as usize]), "bitset-history", ctx.n(3_000, 60_000), case(Some(cap), ctx.n(60, 200) as usize), run_case);
    }
    // large capacities (beyond 8192 and 65536 bits): fewer, shorter histories
    for cap in 7..9u8 {
        ctx.prop(&format!("histories-N{}", CAPS[cap as usize]), "bitset-history", ctx.n(150, 4_000), case(Some(cap), 24), run_case);
    }
    ctx.finish();
}
