use c12::*;
use vcore::Ctx;

fn main() {
    let mut ctx = Ctx::init("C12");
    ctx.rule(
        "Cases are operation histories over three Bitset<N> registers (set, remove, flip, clear, new/default, from_u64, complement, \
         &,|,^ in reference form, &=,|=,^=, clone, clear repeated 65535..196608 times) for N in {1,2,3,4,7,10,16} and, with fewer and shorter histories, N in {130, 1030} (8320 and 65920 bits), with index selectors biased to word boundaries \
         (0, 63, 64, 65, 127, 128, 64N-1), interpreted against BTreeSet<usize> models. After every op: iter_bits (strictly ascending, \
         equal to the set), count, test on boundary and touched indices, == between all register pairs <=> set equality; Display and \
         Debug rendering (index 0 first) every 8 ops and at the end. Every history is interpreted a second time without the intermediate observations (count, complement count, ==, iteration, Display only at the end), because an observation may warm up or repair lazily maintained state. Non-trivial = N>1 and an element at a word-boundary index \
         (i%64 in {63,0}) is present when a binary operator or the iterator runs. Distinct = distinct (sub-check, case).",
    );
    ctx.replayer("bitset-history", |v| run_case(&serde_json::from_value::<Case>(v.clone()).expect("case")));
    ctx.begin();
    for cap in 0..7u8 {
        ctx.prop(&format!("histories-N{}", CAPS[cap as usize]), "bitset-history", ctx.n(3_000, 60_000), case(Some(cap), ctx.n(60, 200) as usize), run_case);
    }
    // large capacities (beyond 8192 and 65536 bits): fewer, shorter histories
    for cap in 7..9u8 {
        ctx.prop(&format!("histories-N{}", CAPS[cap as usize]), "bitset-history", ctx.n(150, 4_000), case(Some(cap), 24), run_case);
    }
    // counters that wrap: elements set, then clear() 65535 .. 196608 times on the same object, then observed (with and without a
    // write to another word in between)
    let mut many = Vec::new();
    for cap in [0u8, 1, 3, 6, 7] {
        for k in 0..6u8 {
            for (a, b) in [(1u16, 3u16), (127, 257), (2 * 70 + 1, 2 * 5)] {
                many.push(Case { cap, ops: vec![Op::Set { r: 0, x: a }, Op::Set { r: 0, x: b }, Op::ClearMany { r: 0, k }] });
                many.push(Case { cap, ops: vec![Op::Set { r: 0, x: a }, Op::Set { r: 0, x: b }, Op::ClearMany { r: 0, k }, Op::Set { r: 0, x: b }, Op::Clone { dst: 1, src: 0 }] });
                many.push(Case { cap, ops: vec![Op::FromU64 { r: 1, w: u64::MAX }, Op::Set { r: 1, x: a }, Op::ClearMany { r: 1, k: 0 }, Op::Clear { r: 1 }, Op::Bin { dst: 2, a: 1, b: 0, op: 1 }] });
            }
        }
    }
    ctx.exhaustive("clear-repeated-many-times", "bitset-history", "N in {1,2,4,16,130} x {65535, 65536, 65537, 131071, 131072, 196608} clears after setting elements in one or two words", false, many, run_case);
    ctx.finish();
}
