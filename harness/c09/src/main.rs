use c09::*;
use proptest::strategy::Strategy;
use vcore::Ctx;

fn main() {
    let mut ctx = Ctx::init("C09");
    let buffered = !cfg!(debug_assertions);
    ctx.rule(
        "A case is a history of writes (all 12 integer types over their full range with bias to 0, +-1, MIN, MAX, 10^k, 10^k-1 and values \
         with long zero runs; ASCII &str/String incl. lengths BUF-1, BUF, BUF+1, 2BUF+3; write_char; Vec<int>, Vec<Vec<i32>>, Vec<String>; \
         tuples of arity 2..8; explicit flush; PadTo(k) = filler that leaves exactly BUF-k bytes pending before the next write, k mostly in \
         0..=45), a sink behaviour (accept all / at most p bytes / 1 byte per call / alternating, plus Interrupted on selected calls) and \
         the way the writer ends (drop or flush+drop). BUF is learnt from the size of the first delivery of a run of 1-byte writes. Oracle: \
         the sink's byte log is at every moment a prefix of, and after flush/drop equal to, the concatenation of format!(\"{}\") renderings \
         (single spaces inside vectors/tuples); in the flush-per-write (debug-assertions) build every write must have reached the sink at \
         once. Round trip: values written with separators are read back by rlib_io::Reader with the matching typed script. The out!/outln! macros are exercised with generated values at a buffer fill level straddling BUF. Non-trivial = \
         (buffered build) a write that starts within 45 bytes of a full buffer and does not fit, or a sink that accepted a strict prefix \
         or returned Interrupted; (round trip) negative / 19+ digit / vector / tuple values. Distinct = distinct (profile, sub-check, case).",
    );
    ctx.assume("strings are ASCII; the sink honours the Write contract (partial writes and Interrupted allowed - up to 5000 in a row - always followed by progress)");
    let buf_found = vcore::catch(discover_buf).unwrap_or(0);
    let buf = if buffered && buf_found >= 64 && buf_found <= (1 << 22) { buf_found } else { 1 << 16 };
    println!("writer buffer size: discovered first delivery = {} bytes (buffered build: {}), using {}", buf_found, buffered, buf);
    ctx.extra("first_delivery_of_1_byte_writes", serde_json::json!(buf_found));
    ctx.extra("buffered_build", serde_json::json!(buffered));
    ctx.replayer("writer-case", move |v| run_case(&serde_json::from_value::<Case>(v.clone()).expect("case"), buf, buffered));
    ctx.replayer("roundtrip-case", |v| run_roundtrip(&serde_json::from_value::<RtCase>(v.clone()).expect("case")));
    ctx.begin();
    ctx.prop_split("histories", "writer-case", ctx.n(3_000, 100_000), ctx.parts(), case(buf, 30).boxed(), move |c| run_case(c, buf, buffered));
    ctx.prop("short-histories", "writer-case", ctx.n(3_000, 60_000), case(buf, 5), move |c| run_case(c, buf, buffered));
    ctx.prop_split("roundtrip", "roundtrip-case", ctx.n(4_000, 100_000), ctx.parts(), rt_case(20).boxed(), run_roundtrip);
    ctx.replayer("macro-case", move |v| run_macros(&serde_json::from_value::<MacroCase>(v.clone()).expect("case"), buf));
    ctx.prop("output-macros", "macro-case", ctx.n(400, 10_000), macro_case(), move |c| run_macros(c, buf));
    ctx.replayer("writer-many", |v| run_many_flushes(&serde_json::from_value::<ManyFlushes>(v.clone()).expect("case")));
    ctx.exhaustive(
        "many-flushes-on-one-writer",
        "writer-many",
        "65535 .. 140000 short writes on one writer with an explicit flush after every one / every second one",
        false,
        vec![ManyFlushes { n: 65_535, every: 1 }, ManyFlushes { n: 65_537, every: 1 }, ManyFlushes { n: 131_073, every: 1 }, ManyFlushes { n: 140_000, every: 2 }],
        run_many_flushes,
    );
    ctx.finish();
}
