//! C09: Writer delivers exactly the formatted bytes, in order; round trip through Reader.

use c08::{Ty, R, TYS};
use proptest::prelude::*;
use rlib_io::Writer;
use serde::{Deserialize, Serialize};
use std::cell::RefCell;
use std::io::Write;
use std::rc::Rc;
use vcore::{vensure, CaseResult, CaseStats, Violation};

#[derive(Clone, Debug, Hash, Serialize, Deserialize, PartialEq)]
pub enum W {
    /// decimal text of a value of the given type
    Int(Ty, String),
    Str(String),
    /// same as Str but through the `&str` impl
    StrRef(String),
    /// a long ASCII string of `len` bytes (content derived from len and seed)
    Long { len: u32, seed: u8 },
    Char(u8),
    VecInt(Ty, Vec<String>),
    VecVec(Vec<Vec<i32>>),
    VecStr(Vec<String>),
    /// (i32, String, u8, i64, u128, i16, usize, i8) truncated to arity k in 2..=8, values as decimal text / word
    Tuple(u8, Vec<String>),
    Flush,
    /// write filler so that the next write starts with exactly BUF-k bytes pending (buffered builds)
    PadTo(u16),
}

#[derive(Clone, Debug, Hash, Serialize, Deserialize, PartialEq)]
pub struct SinkSpec {
    /// 0 accept all; 1 accept at most `param` bytes per call; 2 accept 1 byte per call; 3 alternate
    pub kind: u8,
    pub param: u16,
    /// write calls that return Interrupted
    pub interrupts: Vec<u16>,
    /// 0: an injected interruption repeats at most 3 times in a row; otherwise it repeats `burst` times in a row (the `Write`
    /// contract puts no bound on that), always followed by progress
    #[serde(default)]
    pub burst: u16,
}

#[derive(Clone, Debug, Hash, Serialize, Deserialize, PartialEq)]
pub struct Case {
    pub ops: Vec<W>,
    pub sink: SinkSpec,
    pub end_with_flush: bool,
    /// the writer is dropped by stack unwinding (a panic in the caller's code) instead of at the end of its scope
    #[serde(default)]
    pub unwind: bool,
}

#[derive(Default)]
pub struct SinkState {
    pub log: Vec<u8>,
    pub calls: usize,
    pub partial: usize,
    pub interrupted: usize,
    pub first_call_len: usize,
    pub flush_calls: usize,
}

pub struct Sink {
    spec: SinkSpec,
    st: Rc<RefCell<SinkState>>,
    consecutive: usize,
    burst_left: usize,
}

impl Write for Sink {
    fn write(&mut self, buf: &[u8]) -> std::io::Result<usize> {
        let mut s = self.st.borrow_mut();
        let call = s.calls;
        s.calls += 1;
        if s.first_call_len == 0 {
            s.first_call_len = buf.len();
        }
        if self.burst_left > 0 {
            self.burst_left -= 1;
            s.interrupted += 1;
            return Err(std::io::Error::new(std::io::ErrorKind::Interrupted, "interrupted (injected burst)"));
        }
        if self.spec.interrupts.contains(&(call as u16)) && self.consecutive < 3 {
            self.consecutive += 1;
            s.interrupted += 1;
            if self.spec.burst > 0 && self.consecutive == 1 {
                self.burst_left = self.spec.burst as usize - 1;
                self.consecutive = 3;
            }
            return Err(std::io::Error::new(std::io::ErrorKind::Interrupted, "interrupted (injected)"));
        }
        self.consecutive = 0;
        let n = match self.spec.kind % 4 {
            0 => buf.len(),
            1 => buf.len().min((self.spec.param as usize).max(1)),
            2 => buf.len().min(1),
            _ => {
                if call % 2 == 0 {
                    buf.len().min(1 + self.spec.param as usize % 7)
                } else {
                    buf.len()
                }
            }
        };
        if n < buf.len() {
            s.partial += 1;
        }
        s.log.extend_from_slice(&buf[..n]);
        Ok(n)
    }
    fn flush(&mut self) -> std::io::Result<()> {
        self.st.borrow_mut().flush_calls += 1;
        Ok(())
    }
}

/// Holds the writer under test. If library code panics (say, inside a flush), unwinding must not run `Writer::drop` - it flushes
/// again, a second panic while panicking aborts the whole check process, and the first panic (the finding) would be lost.
pub struct Held(Option<Writer<'static>>);
impl std::ops::Deref for Held {
    type Target = Writer<'static>;
    fn deref(&self) -> &Writer<'static> {
        self.0.as_ref().unwrap()
    }
}
impl std::ops::DerefMut for Held {
    fn deref_mut(&mut self) -> &mut Writer<'static> {
        self.0.as_mut().unwrap()
    }
}
impl Drop for Held {
    fn drop(&mut self) {
        if std::thread::panicking() {
            std::mem::forget(self.0.take());
        }
    }
}

/// Very many flushes on one writer (counters that wrap at 16 bits): `n` times one short write followed by an explicit flush
#[derive(Clone, Debug, Hash, Serialize, Deserialize, PartialEq)]
pub struct ManyFlushes {
    pub n: u32,
    pub every: u8,
}

pub fn run_many_flushes(m: &ManyFlushes) -> CaseResult {
    let state = Rc::new(RefCell::new(SinkState::default()));
    let n = m.n.min(300_000);
    let every = m.every.max(1) as u32;
    let mut model: Vec<u8> = Vec::with_capacity(n as usize * 3);
    {
        let mut w = Held(Some(Writer::new(Box::new(Sink { spec: SinkSpec { kind: 0, param: 0, interrupts: vec![], burst: 0 }, st: state.clone(), consecutive: 0, burst_left: 0 }))));
        for i in 0..n {
            let v = (i % 251) as u8;
            w.write(&v);
            w.write_char(' ');
            model.extend_from_slice(v.to_string().as_bytes());
            model.push(b' ');
            if i % every == 0 {
                w.flush();
                let s = state.borrow();
                vensure!(s.log.len() == model.len(), "flush-incomplete", "{:?}: after flush number {} the sink has {} of {} bytes", m, i / every + 1, s.log.len(), model.len());
            }
        }
    }
    let s = state.borrow();
    let d = first_diff(&s.log, &model);
    vensure!(s.log == model, "final-bytes", "{:?}: after drop the sink has {} bytes, written {}; first difference at byte {}", m, s.log.len(), model.len(), d);
    let mut st = CaseStats::default();
    st.nontrivial = n / every > 65_536;
    if st.nontrivial {
        st.label("more-than-65536-flushes-on-one-writer");
    }
    Ok(st)
}

pub fn long_string(len: u32, seed: u8) -> String {
    let mut s = String::with_capacity(len as usize);
    let mut x = (seed as u32).wrapping_mul(2654435761u32) | 1;
    for _ in 0..len {
        x = x.wrapping_mul(1664525).wrapping_add(1013904223);
        s.push((b'!' + ((x >> 24) % 94) as u8) as char);
    }
    s
}

macro_rules! with_int {
    ($ty:expr, $text:expr, |$v:ident| $body:expr) => {
        match $ty {
            Ty::I8 => { let $v: i8 = $text.parse().expect("int text"); $body }
            Ty::I16 => { let $v: i16 = $text.parse().expect("int text"); $body }
            Ty::I32 => { let $v: i32 = $text.parse().expect("int text"); $body }
            Ty::I64 => { let $v: i64 = $text.parse().expect("int text"); $body }
            Ty::I128 => { let $v: i128 = $text.parse().expect("int text"); $body }
            Ty::Isize => { let $v: isize = $text.parse().expect("int text"); $body }
            Ty::U8 => { let $v: u8 = $text.parse().expect("int text"); $body }
            Ty::U16 => { let $v: u16 = $text.parse().expect("int text"); $body }
            Ty::U32 => { let $v: u32 = $text.parse().expect("int text"); $body }
            Ty::U64 => { let $v: u64 = $text.parse().expect("int text"); $body }
            Ty::U128 => { let $v: u128 = $text.parse().expect("int text"); $body }
            Ty::Usize => { let $v: usize = $text.parse().expect("int text"); $body }
        }
    };
}

macro_rules! with_vec {
    ($ty:expr, $texts:expr, |$v:ident| $body:expr) => {
        match $ty {
            Ty::I8 => { let $v: Vec<i8> = $texts.iter().map(|t| t.parse().expect("int text")).collect(); $body }
            Ty::I16 => { let $v: Vec<i16> = $texts.iter().map(|t| t.parse().expect("int text")).collect(); $body }
            Ty::I32 => { let $v: Vec<i32> = $texts.iter().map(|t| t.parse().expect("int text")).collect(); $body }
            Ty::I64 => { let $v: Vec<i64> = $texts.iter().map(|t| t.parse().expect("int text")).collect(); $body }
            Ty::I128 => { let $v: Vec<i128> = $texts.iter().map(|t| t.parse().expect("int text")).collect(); $body }
            Ty::Isize => { let $v: Vec<isize> = $texts.iter().map(|t| t.parse().expect("int text")).collect(); $body }
            Ty::U8 => { let $v: Vec<u8> = $texts.iter().map(|t| t.parse().expect("int text")).collect(); $body }
            Ty::U16 => { let $v: Vec<u16> = $texts.iter().map(|t| t.parse().expect("int text")).collect(); $body }
            Ty::U32 => { let $v: Vec<u32> = $texts.iter().map(|t| t.parse().expect("int text")).collect(); $body }
            Ty::U64 => { let $v: Vec<u64> = $texts.iter().map(|t| t.parse().expect("int text")).collect(); $body }
            Ty::U128 => { let $v: Vec<u128> = $texts.iter().map(|t| t.parse().expect("int text")).collect(); $body }
            Ty::Usize => { let $v: Vec<usize> = $texts.iter().map(|t| t.parse().expect("int text")).collect(); $body }
        }
    };
}

/// canonical decimal rendering (what `format!("{}")` gives for the parsed value)
fn canon(ty: Ty, text: &str) -> String {
    with_int!(ty, text, |v| format!("{}", v))
}

fn write_tuple(w: &mut Writer, k: usize, t: &[String]) {
    let a: i32 = t[0].parse().unwrap();
    let b: String = t[1].clone();
    if k == 2 {
        return w.write(&(a, b));
    }
    let c: u8 = t[2].parse().unwrap();
    if k == 3 {
        return w.write(&(a, b, c));
    }
    let d: i64 = t[3].parse().unwrap();
    if k == 4 {
        return w.write(&(a, b, c, d));
    }
    let e: u128 = t[4].parse().unwrap();
    if k == 5 {
        return w.write(&(a, b, c, d, e));
    }
    let f: i16 = t[5].parse().unwrap();
    if k == 6 {
        return w.write(&(a, b, c, d, e, f));
    }
    let g: usize = t[6].parse().unwrap();
    if k == 7 {
        return w.write(&(a, b, c, d, e, f, g));
    }
    let h: i8 = t[7].parse().unwrap();
    w.write(&(a, b, c, d, e, f, g, h))
}

pub const TUPLE_TYS: [Option<Ty>; 8] = [Some(Ty::I32), None, Some(Ty::U8), Some(Ty::I64), Some(Ty::U128), Some(Ty::I16), Some(Ty::Usize), Some(Ty::I8)];

fn render(op: &W) -> String {
    match op {
        W::Int(ty, t) => canon(*ty, t),
        W::Str(s) | W::StrRef(s) => s.clone(),
        W::Long { len, seed } => long_string(*len, *seed),
        W::Char(c) => (*c as char).to_string(),
        W::VecInt(ty, v) => v.iter().map(|t| canon(*ty, t)).collect::<Vec<_>>().join(" "),
        W::VecVec(v) => v.iter().map(|r| r.iter().map(|x| x.to_string()).collect::<Vec<_>>().join(" ")).collect::<Vec<_>>().join(" "),
        W::VecStr(v) => v.join(" "),
        W::Tuple(k, t) => (0..*k as usize)
            .map(|i| match TUPLE_TYS[i] {
                Some(ty) => canon(ty, &t[i]),
                None => t[i].clone(),
            })
            .collect::<Vec<_>>()
            .join(" "),
        W::Flush | W::PadTo(_) => String::new(),
    }
}

fn preview(b: &[u8]) -> String {
    let s = String::from_utf8_lossy(b);
    if s.len() > 120 {
        format!("{:?}…({} bytes, tail {:?})", &s[..60], s.len(), &s[s.len() - 40..])
    } else {
        format!("{:?}", s)
    }
}

fn first_diff(a: &[u8], b: &[u8]) -> usize {
    a.iter().zip(b.iter()).position(|(x, y)| x != y).unwrap_or(a.len().min(b.len()))
}

/// `buffered`: this build buffers (release); otherwise every write must reach the sink at once.
pub fn run_case(c: &Case, buf: usize, buffered: bool) -> CaseResult {
    let mut st = CaseStats::default();
    st.size = c.ops.len() as u64;
    let state = Rc::new(RefCell::new(SinkState::default()));
    let mut model: Vec<u8> = Vec::new();
    let mut checked = 0usize;
    {
        let mut w = Held(Some(Writer::new(Box::new(Sink { spec: c.sink.clone(), st: state.clone(), consecutive: 0, burst_left: 0 }))));
        for (i, op) in c.ops.iter().enumerate() {
            let pending = model.len() - state.borrow().log.len();
            let text = render(op);
            if buffered && !text.is_empty() && pending + 45 >= buf && pending + text.len() > buf {
                st.label("write-starts-within-45-bytes-of-full-buffer-and-does-not-fit");
                st.nontrivial = true;
            }
            match op {
                W::Int(ty, t) => with_int!(*ty, t, |v| w.write(&v)),
                W::Str(s) => w.write(s),
                W::StrRef(s) => w.write(&s.as_str()),
                W::Long { len, seed } => {
                    let s = long_string(*len, *seed);
                    if *seed % 2 == 0 {
                        w.write(&s)
                    } else {
                        w.write(&s.as_str())
                    }
                    if *len as usize >= buf {
                        st.label("string-at-least-buffer-size");
                    }
                }
                W::Char(ch) => w.write_char(*ch as char),
                W::VecInt(ty, v) => with_vec!(*ty, v, |x| w.write(&x)),
                W::VecVec(v) => w.write(v),
                W::VecStr(v) => w.write(v),
                W::Tuple(k, t) => write_tuple(&mut w, *k as usize, t),
                W::Flush => w.flush(),
                W::PadTo(k) => {
                    // filler so that exactly buf-k bytes are pending afterwards (only meaningful when buffering)
                    let want = buf.saturating_sub(*k as usize);
                    if pending <= want && want - pending > 0 && want <= buf {
                        let filler = "#".repeat(want - pending);
                        w.write(&filler.as_str());
                        model.extend_from_slice(filler.as_bytes());
                        st.label("pad-to-fill-level");
                    }
                }
            }
            model.extend_from_slice(text.as_bytes());
            let s = state.borrow();
            // the log is append-only: only the bytes that arrived since the last check need comparing
            let d = if s.log.len() <= model.len() { checked + first_diff(&s.log[checked..], &model[checked..s.log.len()]) } else { first_diff(&s.log, &model) };
            if d == s.log.len() && s.log.len() <= model.len() {
                checked = s.log.len();
            }
            vensure!(
                s.log.len() <= model.len() && d == s.log.len(),
                "sink-not-a-prefix",
                "after op {} ({:?}): the sink received {} bytes that are not a prefix of the {} bytes written so far; first difference at byte {}: sink has {}, expected {}",
                i, short(op), s.log.len(), model.len(), d, preview(&s.log[d.min(s.log.len())..(d + 40).min(s.log.len())]), preview(&model[d.min(model.len())..(d + 40).min(model.len())])
            );
            if matches!(op, W::Flush) {
                vensure!(s.log.len() == model.len(), "flush-incomplete", "after flush at op {}: sink has {} of {} bytes", i, s.log.len(), model.len());
            }
            if !buffered && !matches!(op, W::PadTo(_)) {
                vensure!(
                    s.log.len() == model.len(),
                    "debug-build-write-not-flushed",
                    "flush-per-write build: after op {} ({:?}) the sink has {} of {} bytes",
                    i, short(op), s.log.len(), model.len()
                );
            }
        }
        if c.end_with_flush {
            w.flush();
        }
        if c.unwind {
            // the writer goes out of scope while the stack unwinds (resume_unwind: no panic hook, no message)
            let r = std::panic::catch_unwind(std::panic::AssertUnwindSafe(move || {
                let _w = w.0.take().unwrap();
                std::panic::resume_unwind(Box::new("harness: unwinding on purpose"));
            }));
            debug_assert!(r.is_err());
            st.label("writer-dropped-by-unwinding");
        }
        // drop flushes
    }
    let s = state.borrow();
    let d = first_diff(&s.log, &model);
    vensure!(
        s.log == model,
        "final-bytes",
        "after drop: sink has {} bytes, written {}; first difference at byte {}: sink {}, expected {}",
        s.log.len(), model.len(), d, preview(&s.log[d.min(s.log.len())..(d + 40).min(s.log.len())]), preview(&model[d.min(model.len())..(d + 40).min(model.len())])
    );
    if s.partial > 0 {
        st.label("sink-accepted-strict-prefix");
        st.nontrivial = true;
    }
    if s.interrupted > 0 {
        st.label("sink-interrupted");
        st.nontrivial = true;
    }
    if model.len() > buf {
        st.label("output-longer-than-buffer");
    }
    Ok(st)
}

fn short(op: &W) -> String {
    let s = format!("{:?}", op);
    if s.len() > 80 {
        format!("{}…", &s[..80])
    } else {
        s
    }
}

/// Discover the buffer size black-box: single-byte writes until the sink sees its first delivery.
pub fn discover_buf() -> usize {
    let state = Rc::new(RefCell::new(SinkState::default()));
    let mut w = Writer::new(Box::new(Sink { spec: SinkSpec { kind: 0, param: 0, interrupts: vec![], burst: 0 }, st: state.clone(), consecutive: 0, burst_left: 0 }));
    for _ in 0..(1 << 22) {
        w.write_char('x');
        let n = state.borrow().first_call_len;
        if n > 0 {
            return n;
        }
    }
    0
}

// ---------------------------------------------------------------------------------------------
// Round trip: values written with separators are read back by Reader
// ---------------------------------------------------------------------------------------------

#[derive(Clone, Debug, Hash, Serialize, Deserialize, PartialEq)]
pub struct RtCase {
    /// value ops only (Int, Str as word, VecInt, VecStr, Tuple), each followed by a separator char
    pub items: Vec<(W, u8)>,
}

pub fn run_roundtrip(c: &RtCase) -> CaseResult {
    let mut st = CaseStats::default();
    st.size = c.items.len() as u64;
    let state = Rc::new(RefCell::new(SinkState::default()));
    let mut script = Vec::new();
    let mut want = Vec::new();
    {
        let mut w = Writer::new(Box::new(Sink { spec: SinkSpec { kind: 0, param: 0, interrupts: vec![], burst: 0 }, st: state.clone(), consecutive: 0, burst_left: 0 }));
        for (op, sep) in &c.items {
            match op {
                W::Int(ty, t) => {
                    with_int!(*ty, t, |v| w.write(&v));
                    script.push(R::Int(*ty));
                    want.push(format!("int:{}", canon(*ty, t)));
                    if t.starts_with('-') || canon(*ty, t).len() > 18 {
                        st.nontrivial = true;
                    }
                }
                W::Str(s) => {
                    w.write(s);
                    script.push(R::Word);
                    want.push(format!("word:{}", s));
                }
                W::VecInt(ty, v) if !v.is_empty() => {
                    with_vec!(*ty, v, |x| w.write(&x));
                    script.push(R::VecOf(*ty, v.len() as u8));
                    want.push(format!("vec:{}", v.iter().map(|t| canon(*ty, t)).collect::<Vec<_>>().join(",")));
                    st.nontrivial = true;
                }
                W::VecStr(v) if !v.is_empty() => {
                    w.write(v);
                    script.push(R::VecWords(v.len() as u8));
                    want.push(format!("vec:{}", v.join(",")));
                }
                W::Tuple(k, t) => {
                    // the reader-side tuple pattern of c08 is (i32, String, u8, i64, char, u128, i16, usize): different from the
                    // writer pattern, so read the components one by one
                    write_tuple(&mut w, *k as usize, t);
                    for i in 0..*k as usize {
                        match TUPLE_TYS[i] {
                            Some(ty) => {
                                script.push(R::Int(ty));
                                want.push(format!("int:{}", canon(ty, &t[i])));
                            }
                            None => {
                                script.push(R::Word);
                                want.push(format!("word:{}", t[i]));
                            }
                        }
                    }
                    st.nontrivial = true;
                }
                _ => continue,
            }
            w.write_char(match sep % 4 {
                0 => ' ',
                1 => '\n',
                2 => '\t',
                _ => ' ',
            });
        }
    }
    script.push(R::IsEof);
    want.push("eof:true".to_string());
    let bytes = state.borrow().log.clone();
    let (got, _) = c08::run_library(&bytes, &script, &[], &[]);
    for (k, (g, w)) in got.iter().zip(want.iter()).enumerate() {
        if g != w {
            return Err(Violation::new("roundtrip", format!("value {} was written as part of {} and read back as {}, expected {}", k, preview(&bytes), g, w)));
        }
    }
    Ok(st)
}

// ---------------------------------------------------------------------------------------------
// Generators
// ---------------------------------------------------------------------------------------------

fn int_text(ty: Ty) -> BoxedStrategy<String> {
    // full range with boundary bias: 0, ±1, MIN, MAX, 10^k, 10^k - 1
    fn pow10s(max_digits: u32, neg: bool) -> Vec<String> {
        let mut v = vec![];
        for k in 0..max_digits {
            let p = format!("1{}", "0".repeat(k as usize));
            let q = "9".repeat((k as usize).max(1));
            v.push(p.clone());
            v.push(q.clone());
            if neg {
                v.push(format!("-{}", p));
                v.push(format!("-{}", q));
            }
        }
        v
    }
    macro_rules! g {
        ($t:ty, $digits:expr, $neg:expr) => {{
            let mut sp = pow10s($digits, $neg);
            sp.push(<$t>::MIN.to_string());
            sp.push(<$t>::MAX.to_string());
            sp.push("0".into());
            // 10^k*m values with long zero runs
            for k in [3u32, 9, 18, 19, 20, 25, 37] {
                if k < $digits {
                    sp.push(format!("3{}", "0".repeat(k as usize)));
                    sp.push(format!("12345{}", "0".repeat((k as usize).saturating_sub(4))));
                }
            }
            let sp: Vec<String> = sp.into_iter().filter(|s| s.parse::<$t>().is_ok()).collect();
            prop_oneof![3 => prop::sample::select(sp), 4 => any::<$t>().prop_map(|x| x.to_string()), 1 => (any::<$t>(), 0u32..120).prop_map(|(x, s)| (x >> (s % <$t>::BITS)).to_string())].boxed()
        }};
    }
    match ty {
        Ty::I8 => g!(i8, 3, true),
        Ty::I16 => g!(i16, 5, true),
        Ty::I32 => g!(i32, 10, true),
        Ty::I64 => g!(i64, 19, true),
        Ty::I128 => g!(i128, 39, true),
        Ty::Isize => g!(isize, 19, true),
        Ty::U8 => g!(u8, 3, false),
        Ty::U16 => g!(u16, 5, false),
        Ty::U32 => g!(u32, 10, false),
        Ty::U64 => g!(u64, 20, false),
        Ty::U128 => g!(u128, 39, false),
        Ty::Usize => g!(usize, 20, false),
    }
}

fn ty() -> impl Strategy<Value = Ty> {
    prop::sample::select(TYS.to_vec())
}

fn word() -> impl Strategy<Value = String> {
    prop_oneof![4 => "[!-~]{1,10}", 1 => "[!-~]{30,60}"]
}

fn tuple_vals(k: u8) -> BoxedStrategy<Vec<String>> {
    let parts: Vec<BoxedStrategy<String>> = TUPLE_TYS[..k as usize]
        .iter()
        .map(|t| match t {
            Some(ty) => int_text(*ty),
            None => word().boxed(),
        })
        .collect();
    parts.boxed()
}

pub fn value_op() -> impl Strategy<Value = W> {
    prop_oneof![
        30 => ty().prop_flat_map(|t| int_text(t).prop_map(move |s| W::Int(t, s))),
        8 => word().prop_map(W::Str),
        6 => (ty(), 0usize..6).prop_flat_map(|(t, n)| prop::collection::vec(int_text(t), n).prop_map(move |v| W::VecInt(t, v))),
        2 => prop::collection::vec(word(), 0..4).prop_map(W::VecStr),
        6 => (2u8..=8).prop_flat_map(|k| tuple_vals(k).prop_map(move |v| W::Tuple(k, v))),
    ]
}

pub fn op(buf: usize) -> impl Strategy<Value = W> {
    let b = buf as u32;
    prop_oneof![
        40 => value_op(),
        6 => "[ -~]{0,40}".prop_map(W::Str),
        6 => "[ -~]{0,40}".prop_map(W::StrRef),
        6 => (0x20u8..0x7f).prop_map(W::Char),
        3 => Just(W::Char(b'\n')),
        3 => prop::collection::vec(prop::collection::vec(any::<i32>(), 0..4), 0..4).prop_map(W::VecVec),
        // strings around the buffer size
        3 => (prop::sample::select(vec![b - 1, b, b + 1, 2 * b + 3, b / 2, 2 * b, 3 * b - 1]), any::<u8>()).prop_map(|(len, seed)| W::Long { len, seed }),
        2 => (0u32..300, any::<u8>()).prop_map(|(len, seed)| W::Long { len, seed }),
        4 => Just(W::Flush),
        16 => prop_oneof![0u16..=45, 0u16..=45, 46u16..200, any::<u16>()].prop_map(W::PadTo),
    ]
}

pub fn sink() -> impl Strategy<Value = SinkSpec> {
    (prop_oneof![3 => Just(0u8), 2 => Just(1u8), 1 => Just(2u8), 2 => Just(3u8)], prop_oneof![1u16..8, 1u16..5000, Just(u16::MAX)], prop_oneof![3 => Just(vec![]), 2 => prop::collection::vec(0u16..20, 1..5)])
        .prop_flat_map(|(kind, param, interrupts)| {
            // an interruption may repeat more than a thousand times before the sink makes progress
            let burst = if interrupts.is_empty() { Just(0u16).boxed() } else { prop_oneof![6 => Just(0u16), 1 => Just(1024u16), 1 => Just(1025u16), 1 => Just(1500u16), 1 => Just(5000u16)].boxed() };
            burst.prop_map(move |burst| SinkSpec { kind, param, interrupts: interrupts.clone(), burst })
        })
}

pub fn case(buf: usize, max_ops: usize) -> impl Strategy<Value = Case> {
    (prop::collection::vec(op(buf), 0..max_ops), sink(), any::<bool>(), prop_oneof![3 => Just(false), 1 => Just(true)]).prop_map(|(ops, sink, end_with_flush, unwind)| {
        // a 1-byte-per-call sink with several 100 KiB of output is slow but fine; keep as is
        Case { ops, sink, end_with_flush, unwind }
    })
}

pub fn rt_case(max: usize) -> impl Strategy<Value = RtCase> {
    prop::collection::vec((value_op(), any::<u8>()), 0..max).prop_map(|items| RtCase { items })
}

/// fuzz bytes → Case
pub fn decode(data: &[u8], buf: usize) -> Option<Case> {
    if data.len() < 3 {
        return None;
    }
    let sink = SinkSpec { kind: data[0] & 3, param: 1 + (data[1] as u16) * 17, interrupts: if data[0] & 4 != 0 { vec![(data[0] >> 4) as u16, (data[1] >> 3) as u16] } else { vec![] }, burst: if data[0] & 8 != 0 && data[1] & 1 == 1 { 1500 } else { 0 } };
    let end_with_flush = data[2] & 1 == 1;
    let mut ops = Vec::new();
    for b in data[3..].chunks_exact(10) {
        let raw = u64::from_le_bytes([b[2], b[3], b[4], b[5], b[6], b[7], b[8], b[9]]);
        let ty = TYS[b[1] as usize % 12];
        let text = |ty: Ty| -> String {
            let wide = (raw as u128) << 64 | (raw.rotate_left(17) as u128);
            let sh = b[1] as u32 / 12 * 6;
            match ty {
                Ty::I8 => (raw as i8).to_string(),
                Ty::I16 => (raw as i16).to_string(),
                Ty::I32 => (raw as i32).to_string(),
                Ty::I64 => ((raw as i64) >> (sh % 64)).to_string(),
                Ty::I128 => ((wide as i128) >> (sh % 128)).to_string(),
                Ty::Isize => (raw as isize).to_string(),
                Ty::U8 => (raw as u8).to_string(),
                Ty::U16 => (raw as u16).to_string(),
                Ty::U32 => (raw as u32).to_string(),
                Ty::U64 => (raw >> (sh % 64)).to_string(),
                Ty::U128 => (wide >> (sh % 128)).to_string(),
                Ty::Usize => (raw as usize).to_string(),
            }
        };
        ops.push(match b[0] % 16 {
            0 | 1 | 2 | 3 | 4 => W::Int(ty, text(ty)),
            5 => W::Str(long_string((raw % 50) as u32, b[1])),
            6 => W::Char(0x20 + (b[1] % 95)),
            7 => W::VecInt(ty, vec![text(ty), text(ty)]),
            8 => W::Flush,
            9 | 10 | 11 | 12 => W::PadTo((raw % 64) as u16),
            13 => W::Long { len: (buf as u32).wrapping_add((raw % 5) as u32).wrapping_sub(2), seed: b[1] },
            14 => W::Tuple(2, vec![(raw as i32).to_string(), long_string(1 + (raw % 9) as u32, b[1])]),
            _ => W::StrRef(long_string((raw % 200) as u32, b[1])),
        });
        if ops.len() >= 60 {
            break;
        }
    }
    let mut sink = sink;
    if ops.iter().any(|o| matches!(o, W::Long { .. } | W::PadTo(_))) && (sink.kind % 4 == 2 || (sink.kind % 4 == 1 && sink.param < 512)) {
        // byte-at-a-time delivery of >64 KiB is only slow, not more revealing: use chunks of a few hundred bytes
        sink.kind = 1;
        sink.param = 509 + sink.param % 1000;
    }
    Some(Case { ops, sink, end_with_flush, unwind: data[2] & 6 == 6 })
}

// ---------------------------------------------------------------------------------------------
// out! / outln! (output_macro.rs): space-separated items, newline for outln!, through the same Writer
// ---------------------------------------------------------------------------------------------

#[derive(Clone, Debug, Hash, Serialize, Deserialize, PartialEq)]
pub struct MacroCase {
    pub a: i64,
    pub b: u128,
    pub s: String,
    pub v: Vec<i32>,
    pub t: (u8, i16),
    pub pad: u16,
}

pub fn run_macros(c: &MacroCase, buf: usize) -> CaseResult {
    let state = Rc::new(RefCell::new(SinkState::default()));
    let mut want = String::new();
    {
        #[allow(unused_imports)]
        use rlib_io::*; // the way the library is meant to be used: the helper macros are exported at the crate root
        let reader = rlib_io::Reader::new(Box::new(&b""[..]));
        let writer = Writer::new(Box::new(Sink { spec: SinkSpec { kind: 3, param: 5, interrupts: vec![1], burst: 0 }, st: state.clone(), consecutive: 0, burst_left: 0 }));
        rlib_io::make_output_macro!(reader, writer);
        // leave buf - pad bytes pending so that the macro output straddles the buffer boundary (buffered builds)
        let filler = "#".repeat(buf.saturating_sub(c.pad as usize % 64));
        out!(filler.as_str());
        want.push_str(&filler);
        out!(c.a);
        want.push_str(&format!("{}", c.a));
        outln!();
        want.push('\n');
        out!(c.a, c.b, c.s);
        want.push_str(&format!("{} {} {}", c.a, c.b, c.s));
        outln!(c.v, c.t, c.s.as_str());
        want.push_str(&format!("{} {} {} {}\n", c.v.iter().map(|x| x.to_string()).collect::<Vec<_>>().join(" "), c.t.0, c.t.1, c.s));
        outln!(c.b);
        want.push_str(&format!("{}\n", c.b));
        let _ = &reader;
    }
    let got = state.borrow().log.clone();
    let d = first_diff(&got, want.as_bytes());
    vensure!(
        got == want.as_bytes(),
        "output-macros",
        "out!/outln! produced {} bytes, expected {}; first difference at byte {}: got {}, expected {}",
        got.len(), want.len(), d, preview(&got[d.min(got.len())..(d + 40).min(got.len())]), preview(&want.as_bytes()[d.min(want.len())..(d + 40).min(want.len())])
    );
    let mut st = CaseStats::default();
    st.nontrivial = true;
    st.label("output-macros");
    Ok(st)
}

pub fn macro_case() -> impl Strategy<Value = MacroCase> {
    (any::<i64>(), prop_oneof![any::<u128>(), Just(10u128.pow(19)), Just(7 * 10u128.pow(19) + 5), Just(u128::MAX)], "[!-~]{1,12}", prop::collection::vec(any::<i32>(), 0..5), (any::<u8>(), any::<i16>()), any::<u16>())
        .prop_map(|(a, b, s, v, t, pad)| MacroCase { a, b, s, v, t, pad })
}
