#!/usr/bin/env python3
"""Regenerates /verif/MANIFEST.json from the table below (single source of truth for what is claimed)."""
import json, os
ROOT = os.path.dirname(os.path.dirname(os.path.abspath(__file__)))
ALL = ["C%02d" % i for i in range(1, 21)]

# id -> dict(technique, text, note, design_ref, engine)
CLAIMED = {
 "C01": dict(technique="model-based property testing (proptest histories vs Vec model over 19 item algebras incl. a free monoid, a lazy item with a zero-sized modifier type, Min/Max over i64 with the type's extreme values and over f64), debug-assertion and release builds, + small-scope exhaustive histories",
             text="Exploration: generated and exhaustively enumerated operation histories are interpreted against the real Segtree and a plain-array model in lock-step; every ask is compared with the in-order fold, for commutative and free/non-commutative algebras and nested Combinators. Establishes 'held on everything explored', never absence.",
             note="Trusted: the harness item algebras (law-checked each run), the Vec model, proptest's generator. Bounds: histories of <=60 (quick) / <=400 (thorough) ops on n<=130; short histories on large trees (n<=2^12 / 2^15) and on huge SumAdd trees (n about 2^21..2^22, prefix-sum oracle).",
             design_ref="DESIGN.md §4 C01", engine="E1+E2+E3"),
 "C02": dict(technique="model-based property testing with instrumented monotone predicates vs brute-force search + small-scope exhaustive histories",
             text="Exploration: lower_bound / lower_bound_rev are run inside generated histories with predicates verified monotone on the model; result compared with brute force and every aggregate shown to the predicate must be an in-order model fold of a range anchored at the start. 'Held on everything explored'.",
             note="Trusted: the model and the monotonicity pre-check of each predicate instance; identity-element arguments are tolerated (DESIGN §6.4).",
             design_ref="DESIGN.md §4 C02", engine="E1+E2"),
}
PENDING_REASON = "check not built yet in this snapshot of /verif (planned in DESIGN.md §8; the property is addressable by this technique)"

def main():
    extra = {}
    p = os.path.join(ROOT, "tools", "manifest_extra.json")
    if os.path.exists(p):
        extra = json.load(open(p))
    claimed = dict(CLAIMED); claimed.update(extra.get("claimed", {}))
    checks = []
    for pid in ALL:
        if pid not in claimed: continue
        c = claimed[pid]
        checks.append({
            "property_id": pid,
            "quick_cmd": "./check %s --tier quick" % pid,
            "thorough_cmd": "./check %s --tier thorough" % pid,
            "evidence_file": "/verif/evidence/%s.json" % pid,
            "replay_cmd_template": "./check %s --replay {path}" % pid,
            "engine": c.get("engine", "E1"),
            "level_claimed": {"category": "exploration", "text": c["text"], "design_ref": c["design_ref"]},
            "level_note": c["note"],
            "technique": c["technique"],
        })
    na = [{"property_id": pid, "reason": extra.get("na", {}).get(pid, PENDING_REASON)} for pid in ALL if pid not in claimed]
    m = {
        "version": 1,
        "setup_cmd": "./setup.sh",
        "hooks": {
            "guard": "cargo feature `verif` (rlib_treap, rlib_dsu, rlib_f80), default off",
            "enable": "the harness crates for C03/C16, C05 and C18 depend on /repo/rlib/treap, /repo/rlib/dsu and /repo/rlib/f80 with features=[\"verif\"]; nothing else is built with it (C17 deliberately is not)",
            "baseline_off_cmd": "cd /repo && cargo test --workspace --no-fail-fast --offline",
            "source_commits": extra.get("hook_commits", []),
            "add_only": True,
        },
        "engines": [
            {"name": "E1 model-based proptest", "path": "harness/vcore/src/lib.rs (Ctx::prop)", "serves_properties": sorted(claimed), "kind_free_text": "proptest 1.11 TestRunner with ChaCha seed derived from VERIF_SEED; histories as vec(op) + interpreter; integrated shrinking; shrunk case saved as JSON replay"},
            {"name": "E2 small-scope exhaustive enumeration", "path": "harness/vcore/src/lib.rs (Ctx::exhaustive, Ctx::bulk)", "serves_properties": sorted(claimed), "kind_free_text": "complete enumeration of finite sub-domains through the same interpreter/oracle"},
        ] + extra.get("engines", []),
        "checks": checks,
        "not_applicable": na,
        "notes": "All checks are ./check <ID>: offline cargo build of the harness against /repo's current working tree, run under a watchdog, evidence written by the check binaries and validated. Exit 2 = inconclusive (build failure / watchdog), never a violation. Known findings: /verif/known_findings.txt.",
    }
    # kept even when empty: every one of the 20 properties is claimed, and the empty list says so explicitly
    json.dump(m, open(os.path.join(ROOT, "MANIFEST.json"), "w"), indent=1)
    print("claimed:", [c["property_id"] for c in checks], "na:", len(na))
main()
