#!/usr/bin/env python3
"""tools/mut.py <repo-relative file> <old> <new> [nth] -- <ID>...   sensitivity helper:
replace the nth (default 1st) occurrence of <old> in the file under /repo, run the quick checks, ALWAYS revert.
With env RUN_TESTS=1 also runs the crate's own tests first (must stay green for a realistic mutant)."""
import subprocess, sys, os
a = sys.argv[1:]
k = a.index("--")
f, old, new = a[0], a[1], a[2]
nth = int(a[3]) if k > 3 else 1
ids = a[k + 1:]
path = os.path.join("/repo", f)
if subprocess.run(["git", "-C", "/repo", "diff", "--quiet"]).returncode != 0:
    print("/repo dirty; refusing"); sys.exit(2)
s = open(path).read()
pos = -1
for _ in range(nth):
    pos = s.find(old, pos + 1)
    if pos < 0:
        print("pattern not found"); sys.exit(2)
open(path, "w").write(s[:pos] + new + s[pos + len(old):])
try:
    if os.environ.get("RUN_TESTS"):
        crate = f.split("/")[1]
        r = subprocess.run(["cargo", "test", "--offline", "-q", "-p", "rlib_" + crate], cwd="/repo", capture_output=True, text=True)
        print("repo tests for rlib_%s: %s" % (crate, "PASS" if r.returncode == 0 else "FAIL (mutant not realistic)"))
    for i in ids:
        r = subprocess.run(["./check", i, "--tier", os.environ.get("TIER", "quick")], cwd="/verif", capture_output=True, text=True)
        lines = [l[:300] for l in r.stdout.splitlines() if l.startswith(("VIOLATION", "violation detail", "INCONCLUSIVE", "KNOWN"))]
        print("== %s exit=%d  %s" % (i, r.returncode, "CAUGHT" if r.returncode == 1 else "MISSED" if r.returncode == 0 else "INCONCLUSIVE"))
        for l in lines[:3]: print("   ", l)
        if r.returncode == 2: print(r.stdout[-1500:])
finally:
    subprocess.run(["git", "-C", "/repo", "checkout", "--", "."])
