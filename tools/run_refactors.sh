#!/bin/bash
# tools/run_refactors.sh [name...] — property-preserving refactors written by independent sub-agents (refactors/<name>/patch.diff):
# apply each to /repo, run the quick checks of the properties it could touch, always revert. A check must stay SILENT (exit 0).
cd "$(dirname "$0")/.."
names="$@"; [ -z "$names" ] && names=$(ls refactors)
for n in $names; do
  id=${n%%_*}
  case $id in C01|C02) ids="C01 C02";; C03|C16|C17) ids="C03 C16 C17";; C08|C09) ids="C08 C09 C19";; C14) ids="C14 C16";; *) ids="$id";; esac
  echo "#### $n"
  tools/with_patch.sh refactors/$n/patch.diff $ids 2>&1 | grep -E "^==|VIOLATION|violation detail|INCONCLUSIVE|does not apply" | cut -c1-400 | awk '/^==/{c=0} {c++; if (c<=3) print}'
done
