#!/usr/bin/env python3
"""Run the quick checks against every confirmed seeded change (apply to /repo, check, revert) and record the outcome in
seeded/<name>/meta.json ('detection') and seeded/SUMMARY.md. Serial; nothing else may build from /repo meanwhile."""
import json, os, subprocess, sys
ROOT = "/verif"
RELATED = {"C01": ["C01", "C02"], "C02": ["C02", "C01"], "C03": ["C03", "C16"], "C16": ["C16", "C03"]}
names = sys.argv[1:] or sorted(os.listdir(os.path.join(ROOT, "seeded")))
rows = []
for n in names:
    d = os.path.join(ROOT, "seeded", n)
    if not os.path.isfile(os.path.join(d, "patch.diff")):
        continue
    pid = n.split("_")[0]
    try:
        if "status" in json.load(open(os.path.join(d, "meta.json"))).get("rebased_after_fix_697888f", {}):
            print((n, pid, "obsolete on the current tree: record kept")); continue
    except Exception:
        pass
    ids = RELATED.get(pid, [pid])
    if subprocess.run(["git", "-C", "/repo", "diff", "--quiet"]).returncode != 0:
        print("/repo dirty"); sys.exit(2)
    if subprocess.run(["git", "-C", "/repo", "apply", os.path.join(d, "patch.diff")]).returncode != 0:
        rows.append((n, pid, "patch no longer applies to /repo HEAD", "")); continue
    det = {}
    try:
        for i in ids:
            r = subprocess.run(["./check", i, "--tier", "quick"], cwd=ROOT, capture_output=True, text=True)
            lines = [l for l in r.stdout.splitlines() if l.startswith("violation detail")]
            det[i] = {"exit": r.returncode, "result": {0: "missed", 1: "caught", 2: "inconclusive"}.get(r.returncode, "?"), "first_detail": (lines[0][:300] if lines else "")}
    finally:
        subprocess.run(["git", "-C", "/repo", "checkout", "--", "."])
    m = json.load(open(os.path.join(d, "meta.json")))
    m["detection"] = {"ran": "./check <ID> --tier quick with the patch applied to /repo, then reverted", "results": det}
    json.dump(m, open(os.path.join(d, "meta.json"), "w"), indent=1)
    rows.append((n, pid, ", ".join("%s:%s" % (k, v["result"]) for k, v in det.items()), m.get("summary", "")[:110].replace("|", "/")))
    print(rows[-1][:3], flush=True)
with open(os.path.join(ROOT, "seeded", "SUMMARY.md"), "w") as f:
    f.write("# Seeded changes (written by independent sub-agents, confirmed, then run against the quick checks)\n\n| seed | property | quick checks | change |\n|---|---|---|---|\n")
    for r in rows:
        f.write("| %s | %s | %s | %s |\n" % r)
print("done")
