#!/bin/bash
# tools/run_seeds.sh [name...]   — run our quick checks against confirmed seeded changes (apply to /repo, check, revert)
cd "$(dirname "$0")/.."
names="$@"; [ -z "$names" ] && names=$(ls seeded)
for n in $names; do
  id=${n%%_*}
  ids="$id"
  case $id in C01) ids="C01 C02";; C02) ids="C02 C01";; C03) ids="C03 C16";; C16) ids="C16 C03";; C08) ids="C08";; C09) ids="C09";; esac
  [ -n "${IDS:-}" ] && ids="$IDS"
  echo "#### $n"
  tools/with_patch.sh seeded/$n/patch.diff $ids 2>&1 | grep -E "^==|VIOLATION|violation detail|INCONCLUSIVE" | cut -c1-260 | awk '/^==/{c=0} {c++; if (c<=3) print}'
done
