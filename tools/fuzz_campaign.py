#!/usr/bin/env python3
"""Engine E3: coverage-guided libFuzzer campaigns (thorough tier). Used by ../check.

campaign(pid, seed, runs_per_worker, workers) ->
    dict(status="ok"|"violation"|"inconclusive", stats=[...], replay=path or None, note=str)

Fixed work (-runs), seeds seed+i, fresh corpus per worker seeded with random maximum-length inputs, ASan on
(cargo-fuzz default). A violation found inside a target is printed by the target as `FUZZ-VIOLATION <json>`;
the driver turns it into a replay file, delta-minimises the op list through `check --replay`, and reports it.
A libFuzzer campaign is not reproducible bit for bit; the saved input is the reproducible unit.
"""
import json, os, random, re, shutil, subprocess, sys

ROOT = os.path.dirname(os.path.dirname(os.path.abspath(__file__)))
TARGETS = {
    # pid -> (target, builds, runs per worker)   builds: list of (label, extra cargo-fuzz build args)
    # runs are sized from measured exec/s (ASan build): segtree ~1000/s, treap ~600/s, reader ~1500/s, writer ~150/s, bitset ~200/s
    "C01": ("segtree", [("dbg", [])], 250000),
    "C02": ("segtree", [("dbg", [])], 250000),
    "C03": ("treap", [("dbg", [])], 150000),
    "C08": ("reader", [("dbg", []), ("rel", ["-O"])], 200000),
    "C09": ("writer", [("dbg", []), ("rel", ["-O"])], 5000),
    "C12": ("bitset", [("dbg", [])], 40000),
    "C10": ("geometry", [("dbg", [])], 20000000),
}
LIST_KEYS = ["ops", "script", "calls", "cuts", "interrupts"]


def env():
    e = dict(os.environ)
    e["CARGO_NET_OFFLINE"] = "true"
    e["ASAN_OPTIONS"] = "detect_odr_violation=0:abort_on_error=0"
    e.pop("CARGO_TARGET_DIR", None)
    return e


def build(target, label, extra):
    tdir = os.path.join(ROOT, "target", "fuzz-" + label)
    cmd = ["cargo", "+nightly", "fuzz", "build", "--fuzz-dir", os.path.join(ROOT, "fuzz"), "--target-dir", tdir] + extra + [target]
    p = subprocess.run(cmd, cwd=os.path.join(ROOT, "harness"), env=env(), stdout=subprocess.PIPE, stderr=subprocess.STDOUT, text=True)
    if p.returncode != 0:
        return None, p.stdout[-3000:]
    exe = os.path.join(tdir, "x86_64-unknown-linux-gnu", "release", target)
    return (exe if os.path.exists(exe) else None), p.stdout[-2000:]


def seed_corpus(d, seed):
    os.makedirs(d, exist_ok=True)
    r = random.Random(seed)
    for i in range(24):
        n = 1024 if i < 12 else r.randrange(16, 512)
        # mix of uniform bytes and low-entropy bytes (small selectors / ASCII), so decoders reach long histories at once
        if i % 3 == 0:
            b = bytes(r.randrange(256) for _ in range(n))
        elif i % 3 == 1:
            b = bytes(r.choice(b"0123456789- \n\r\tab") for _ in range(n))
        else:
            b = bytes(r.randrange(0, 24) if r.random() < 0.7 else r.randrange(256) for _ in range(n))
        open(os.path.join(d, "seed-%02d" % i), "wb").write(b)


def minimise(pid, path):
    """Greedy delta-minimisation over the case's list fields, keeping the same violation signature."""
    doc = json.load(open(path))
    sig = doc.get("sig")

    def fails(d):
        tmp = path + ".min.json"
        json.dump(d, open(tmp, "w"))
        p = subprocess.run([os.path.join(ROOT, "check"), pid, "--replay", tmp], cwd=ROOT, stdout=subprocess.PIPE, stderr=subprocess.STDOUT, text=True)
        return p.returncode == 1 and ("sig=%s" % sig) in p.stdout

    if not fails(doc):
        return path, False
    case = doc["case"]
    budget = 400
    for key in LIST_KEYS:
        if not isinstance(case, dict) or not isinstance(case.get(key), list):
            continue
        chunk = max(1, len(case[key]) // 2)
        while chunk >= 1 and budget > 0:
            i = 0
            while i < len(case[key]) and budget > 0:
                trial = json.loads(json.dumps(doc))
                del trial["case"][key][i:i + chunk]
                budget -= 1
                if fails(trial):
                    doc = trial
                    case = doc["case"]
                else:
                    i += chunk
            chunk //= 2
    json.dump(doc, open(path, "w"), indent=1)
    try:
        os.remove(path + ".min.json")
    except OSError:
        pass
    return path, True


def campaign(pid, seed, runs, workers):
    if pid not in TARGETS:
        return None
    target, builds, default_runs = TARGETS[pid]
    if not runs:
        runs = default_runs
    stats, found = [], None
    for label, extra in builds:
        exe, log = build(target, label, extra)
        if exe is None:
            return dict(status="inconclusive", stats=stats, replay=None, note="fuzz target %s (%s) does not build: %s" % (target, label, log[-600:]))
        procs = []
        for w in range(workers):
            cdir = os.path.join(ROOT, "out", "corpus", "%s-%s-%s-%d-%d" % (pid, target, label, seed, w))
            shutil.rmtree(cdir, ignore_errors=True)
            seed_corpus(cdir, seed * 1000 + w)
            adir = os.path.join(ROOT, "out", "fuzz-artifacts", "%s-%s-%s-%d-%d" % (pid, target, label, seed, w))
            shutil.rmtree(adir, ignore_errors=True)
            os.makedirs(adir, exist_ok=True)
            cmd = [exe, cdir, "-runs=%d" % runs, "-seed=%d" % (seed * 100 + w + 1), "-max_len=1024", "-len_control=0", "-timeout=60",
                   "-rss_limit_mb=4096", "-artifact_prefix=" + adir + "/", "-print_final_stats=1"]
            logp = os.path.join(adir, "stderr.log")
            # stderr goes to a file: a pipe would block the workers that are not being read yet
            procs.append((w, cdir, logp, subprocess.Popen(cmd, cwd=ROOT, env=env(), stdout=subprocess.DEVNULL, stderr=open(logp, "w"))))
        for w, cdir, logp, p in procs:
            p.wait()
            err = open(logp, errors="replace").read()
            execs = 0
            m = re.search(r"stat::number_of_executed_units:\s*(\d+)", err)
            if m:
                execs = int(m.group(1))
            ft = re.findall(r"cov: (\d+) ft: (\d+)", err)
            st = dict(target=target, build=label, worker=w, seed=seed * 100 + w + 1, runs_requested=runs, execs=execs,
                      corpus_files=len(os.listdir(cdir)), cov=int(ft[-1][0]) if ft else 0, features=int(ft[-1][1]) if ft else 0, exit=p.returncode)
            stats.append(st)
            for line in err.splitlines():
                if line.startswith("FUZZ-VIOLATION "):
                    try:
                        doc = json.loads(line[len("FUZZ-VIOLATION "):])
                    except ValueError:
                        continue
                    if doc.get("property") == pid and found is None:
                        doc["profile"] = "fuzz-" + label
                        found = doc
            if p.returncode != 0 and found is None and "FUZZ-VIOLATION" not in err:
                # crash / timeout / oom without an oracle report
                kind = "timeout" if "ALARM" in err or "timeout" in err.lower() else "crash"
                st["note"] = kind
    if found is not None:
        vdir = os.path.join(ROOT, "out", "violations")
        os.makedirs(vdir, exist_ok=True)
        path = os.path.join(vdir, "%s-fuzz-%08x.json" % (pid, abs(hash(json.dumps(found, sort_keys=True))) & 0xFFFFFFFF))
        json.dump(found, open(path, "w"), indent=1)
        path, reproduced = minimise(pid, path)
        return dict(status="violation" if reproduced else "inconclusive", stats=stats, replay=path, detail="[%s] %s" % (found.get("sig"), found.get("msg", "")[:400]),
                    note="" if reproduced else "a fuzz-found failure did not reproduce through check --replay (different build profile?)")
    bad = [s for s in stats if s.get("note")]
    if bad:
        return dict(status="inconclusive", stats=stats, replay=None, note="fuzz worker ended with %s without an oracle report" % bad[0]["note"])
    return dict(status="ok", stats=stats, replay=None, note="")


if __name__ == "__main__":
    r = campaign(sys.argv[1], int(sys.argv[2]) if len(sys.argv) > 2 else 1, int(sys.argv[3]) if len(sys.argv) > 3 else 20000, int(sys.argv[4]) if len(sys.argv) > 4 else 4)
    print(json.dumps(r, indent=1)[:3000])
