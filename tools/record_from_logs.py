#!/usr/bin/env python3
"""tools/record_from_logs.py [name...] — write the 'detection' record of seeded changes from saved tools/with_patch.sh output
(out/seedlogs/<name>.log: patch applied to /repo, ./check <ID> --tier quick, patch reverted), for rounds where the serial
tools/record_seeds.py run (which also runs the related property's check) would take too long. Then regenerate SUMMARY.md with
tools/seed_summary.py."""
import json, os, re, sys
ROOT = "/verif"
names = sys.argv[1:] or sorted(f[:-4] for f in os.listdir(os.path.join(ROOT, "out", "seedlogs")) if f.endswith(".log"))
for n in names:
    log = os.path.join(ROOT, "out", "seedlogs", n + ".log")
    meta = os.path.join(ROOT, "seeded", n, "meta.json")
    if not (os.path.isfile(log) and os.path.isfile(meta)):
        print("skip", n); continue
    det, cur = {}, None
    for l in open(log):
        m = re.match(r"== (C\d\d) exit=(\d+)", l)
        if m:
            cur = m.group(1)
            det[cur] = {"exit": int(m.group(2)), "result": {0: "missed", 1: "caught", 2: "inconclusive"}.get(int(m.group(2)), "?"), "first_detail": ""}
        elif cur and l.startswith("violation detail") and not det[cur]["first_detail"]:
            det[cur]["first_detail"] = l.strip()[:300]
    if not det:
        print("no result in", log); continue
    m = json.load(open(meta))
    m["detection"] = {"ran": "tools/with_patch.sh: ./check <ID> --tier quick with the patch applied to /repo, then reverted (own property's check only)", "results": det}
    json.dump(m, open(meta, "w"), indent=1)
    print(n, ", ".join("%s:%s" % (k, v["result"]) for k, v in det.items()))
