#!/bin/bash
# tools/run_all.sh [tier] — run every claimed check in parallel (4 at a time), print one line each
cd "$(dirname "$0")/.."
tier=${1:-quick}
ids=$(python3 -c "import json;print(' '.join(c['property_id'] for c in json.load(open('MANIFEST.json'))['checks']))")
mkdir -p out/runall
printf '%s\n' $ids | xargs -P ${PAR:-4} -I{} bash -c "VERIF_SEED=${VERIF_SEED:-1} ./check {} --tier $tier > out/runall/{}.log 2>&1; echo {} exit=\$? \$(grep -c '^VIOLATION' out/runall/{}.log) violations \$(grep -h 'wall_s' out/runall/{}.log | sed 's/.*wall_s=//' | tr '\n' ' ')"
