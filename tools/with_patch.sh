#!/bin/bash
# usage: tools/with_patch.sh <patch.diff> <ID> [<ID>...]   — apply a patch to /repo, run quick checks, always revert
set -u
patch="$(readlink -f "$1")"; shift
VERIF_DIR="$(cd "$(dirname "$0")/.." && pwd)"
cd /repo || exit 2
if ! git diff --quiet; then echo "/repo has uncommitted changes; refusing"; exit 2; fi
git apply "$patch" || { echo "patch does not apply"; exit 2; }
trap 'git -C /repo checkout -- . ' EXIT
rc_all=0
for id in "$@"; do
  out=$(cd "$VERIF_DIR" && ./check "$id" --tier "${TIER:-quick}" 2>&1); rc=$?
  echo "== $id exit=$rc"; echo "$out" | grep -E "VIOLATION|KNOWN-FINDING|INCONCLUSIVE|violation detail|SUMMARY" | cut -c1-400 | head -${LINES_MAX:-6}
  [ $rc -ne 0 ] && rc_all=$rc
done
exit $rc_all
