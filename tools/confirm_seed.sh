#!/bin/bash
# tools/confirm_seed.sh <worktree> <SEEDED subdir>   — re-verify a sub-agent's seeded change independently, then
# store it under /verif/seeded/<name>/ (patch.diff, demo, meta.json + confirmation record) and run our quick checks on it.
set -u
wt="$1"; name="$2"; src="$wt/SEEDED/$name"
[ -f "$src/patch.diff" ] || { echo "no patch in $src"; exit 2; }
cd "$wt" || exit 2
git checkout -q -- . && git clean -qfd -e SEEDED -e target
crate=$(grep -o '\-p rlib_[a-z0-9_]*' "$src/meta.json" | head -1 | cut -d' ' -f2)
[ -n "$crate" ] || { echo "cannot find crate in meta.json"; exit 2; }
dir="rlib/${crate#rlib_}"
demo_dst="$dir/tests/demo_seeded.rs"
log=/tmp/confirm_$name.log; : > $log
git apply "$src/patch.diff" || { echo "patch does not apply in worktree"; exit 2; }
if cargo test --workspace --offline --no-fail-fast >>$log 2>&1; then suite=pass; else suite=FAIL; fi
mkdir -p "$dir/tests"; cp "$src/demo.rs" "$demo_dst"
if cargo test --offline ${DEMO_FLAGS:-} -p $crate --test demo_seeded >>$log 2>&1; then demo_with=pass; else demo_with=fail; fi
git apply -R "$src/patch.diff"
if cargo test --offline ${DEMO_FLAGS:-} -p $crate --test demo_seeded >>$log 2>&1; then demo_without=pass; else demo_without=fail; fi
rm -f "$demo_dst"; git checkout -q -- . ; git clean -qfd -e SEEDED -e target
echo "$name: suite_with_patch=$suite demo_with_patch=$demo_with demo_without_patch=$demo_without crate=$crate"
if [ "$suite" = pass ] && [ "$demo_with" = fail ] && [ "$demo_without" = pass ]; then
  out=/verif/seeded/$name; mkdir -p $out
  cp "$src/patch.diff" "$src/demo.rs" $out/
  python3 - "$src/meta.json" "$out/meta.json" "$crate" <<'PY'
import json,sys
m=json.load(open(sys.argv[1]))
m["confirmed_by_harness_author"]={"existing_suite_with_patch":"pass (cargo test --workspace --offline --no-fail-fast in a scratch worktree)","demo_with_patch":"fails","demo_without_patch":"passes","demo_cmd":"cp demo.rs rlib/%s/tests/demo_seeded.rs && cargo test --offline -p %s --test demo_seeded"%(sys.argv[3][5:],sys.argv[3])}
json.dump(m,open(sys.argv[2],"w"),indent=1)
PY
  echo "stored in $out"
else
  echo "NOT CONFIRMED; see $log"; exit 1
fi
