#!/usr/bin/env python3
"""Rebuild seeded/SUMMARY.md from the detection records stored in each seeded/<name>/meta.json."""
import json, os
ROOT = os.path.dirname(os.path.dirname(os.path.abspath(__file__)))
rows = []
for n in sorted(os.listdir(os.path.join(ROOT, "seeded"))):
    p = os.path.join(ROOT, "seeded", n, "meta.json")
    if not os.path.isfile(p):
        continue
    m = json.load(open(p))
    det = m.get("detection", {}).get("results", {})
    res = ", ".join("%s:%s" % (k, v["result"]) for k, v in det.items()) or "not run"
    if "status" in m.get("rebased_after_fix_697888f", {}):
        res += " (on the tree at fda4fee; obsolete since fix 697888f, see meta.json)"
    rows.append((n, n.split("_")[0], res,
                 (m.get("needs_to_manifest") or m.get("summary") or "")[:160].replace("\n", " ").replace("|", "/")))
with open(os.path.join(ROOT, "seeded", "SUMMARY.md"), "w") as f:
    f.write("# Seeded changes (written by independent sub-agents, confirmed in a scratch worktree, then run against the quick checks)\n\n")
    f.write("Rounds: `_1`/`_2` first round (two per property), `_3` second round (hard to find at small scale), `_4` third round (less-used entry points).\n")
    f.write("`caught` = the quick check of that property exits 1 with a VIOLATION line; `missed` for a *different* property means that property still holds under the change (correct silence).\n\n")
    f.write("| seed | property | quick checks (as of the last record run) | needs to manifest |\n|---|---|---|---|\n")
    for r in rows:
        f.write("| %s | %s | %s | %s |\n" % r)
print(len(rows), "seeds")
