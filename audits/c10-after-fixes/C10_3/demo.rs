// C10_3 (just outside the stated radius range: r_small = 5e-3): the crossing points reported by intersect_cc for a
// tiny circle on a huge one are 1.25e-7 off the tiny circle.
use rlib_geometry::{
    circle::Circle,
    point::Point,
    util::{intersect_cc, CircleIntersection},
};

const S: f64 = (1u64 << 36) as f64;
const T: f64 = (1u64 << 48) as f64;

/// | |p - c| - r | with the cancellation-prone part done exactly in i128 (inputs are multiples of 2^-36, the
/// reported point is rounded to a multiple of 2^-48, which changes the result by < 1e-14).
fn off_circle(p: &Point, c: (i128, i128), r: i128) -> f64 {
    let dx = (p.x * T).round() as i128 - (c.0 << 12);
    let dy = (p.y * T).round() as i128 - (c.1 << 12);
    let rt = r << 12;
    let d2 = dx * dx + dy * dy;
    let q = d2 - rt * rt;
    ((q as f64) / T / T / ((d2 as f64).sqrt() / T + r as f64 / S)).abs()
}

#[test]
fn tiny_circle_crossing_huge_circle() {
    // all inputs are exact multiples of 2^-36
    let (ac, ar) = ((-68162030081217i128, -67846880515176i128), 68668306726914i128); // (-991.888.., -987.302..), r = 999.2553..
    let (bc, br) = ((-21495350915745i128, -17472808820485i128), 343597385i128); // (-312.7985.., -254.2628..), r = 0.00500000002
    let a = Circle::new(Point::new(ac.0 as f64 / S, ac.1 as f64 / S), ar as f64 / S);
    let b = Circle::new(Point::new(bc.0 as f64 / S, bc.1 as f64 / S), br as f64 / S);
    // exact: D = 999.25428643509949..., r_a - r_b + 3.908e-3 = D = r_a + r_b - 6.092e-3: two crossing points,
    // millions of EPS away from either tangency.
    for (x, y) in [(&a, &b), (&b, &a)] {
        match intersect_cc(x, y) {
            CircleIntersection::Intersect(p, q) => {
                for pt in [p, q] {
                    let ea = off_circle(&pt, ac, ar);
                    let eb = off_circle(&pt, bc, br);
                    assert!(ea < 1e-7, "{pt:?} is {ea:e} off the big circle");
                    assert!(eb < 1e-7, "{pt:?} is {eb:e} off the small circle");
                }
            }
            other => panic!("expected two points, got {other:?}"),
        }
    }
}
