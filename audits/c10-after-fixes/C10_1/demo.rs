// C10_1: intersect_cc reports TouchInside(NaN, NaN) for concentric circles whose radii differ by ~1e-9.
use rlib_geometry::{
    circle::Circle,
    point::Point,
    util::{intersect_cc, CircleIntersection},
};

fn check(c: Point, r_small: f64) {
    // r_big is the f64 nearest to r_small + 1e-9; for r_small = 32 this is 32 + 140737 * 2^-47,
    // i.e. the radii differ by 9.99999966e-10 (exact geometry: nested, disjoint circles).
    let r_big = r_small + 1e-9;
    let a = Circle::new(c, r_small);
    let b = Circle::new(c, r_big);
    for (x, y) in [(&a, &b), (&b, &a)] {
        let res = intersect_cc(x, y);
        // any kind is acceptable this close to the None / TouchInside / Same boundary,
        // but a reported point has to be a point (finite, on both circles within 1e-7).
        for p in res {
            assert!(
                p.x.is_finite() && p.y.is_finite(),
                "intersect_cc(centre {c:?}, r = {r_small:?} and {r_big:?}) = {res:?}: reported point is not finite"
            );
            let da = ((p - c).len() - r_small).abs();
            let db = ((p - c).len() - r_big).abs();
            assert!(da < 1e-7 && db < 1e-7, "{res:?} off the circles: {da:e} {db:e}");
        }
        if let CircleIntersection::Intersect(..) = res {
            panic!("concentric circles cannot cross: {res:?}");
        }
    }
}

#[test]
fn concentric_radius_difference_eps_gives_nan_point() {
    check(Point::new(3.0, 4.0), 32.0);
}

#[test]
fn concentric_radius_difference_eps_gives_nan_point_more() {
    check(Point::new(-361.6875, -297.875), 0.7809947808667962);
    check(Point::new(0.0, 0.0), 40.0);
    check(Point::new(1000.0, -1000.0), 500.0);
}
