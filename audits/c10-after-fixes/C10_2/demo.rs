// C10_2: Circle::position uses a tolerance relative to the radius (1e-9 * r), so for large circles points
// hundreds of EPS away from the circle are classified as Border.
use rlib_geometry::{
    circle::{Circle, PointPosition},
    line::Line,
    point::Point,
    util::{intersect_cl, CircleLineIntersection},
};

#[test]
fn point_477_eps_outside_is_not_border() {
    let c = Circle::new(Point::new(0.0, 0.0), 1000.0);
    let delta = 2f64.powi(-21); // 4.76837158203125e-7, exactly representable; 1000 + delta is exact too
    let p = Point::new(1000.0 + delta, 0.0);
    // exact geometry: |p - c| - r = 2^-21 = 476.8 * 1e-9  -> strictly outside, far beyond the 1e-9 tolerance
    assert_eq!(c.position(&p), PointPosition::Outside);
}

#[test]
fn point_381_eps_inside_is_not_border() {
    let c = Circle::new(Point::new(0.0, 0.0), 1000.0);
    let delta = 2f64.powi(-21);
    let p = Point::new(600.0, 800.0 - delta);
    // exact: |p|^2 = 10^6 - 1600*delta + delta^2 < 10^6 ; |p| - r = -3.8147e-7 (381 * 1e-9) -> strictly inside
    assert_eq!(c.position(&p), PointPosition::Inside);
}

#[test]
fn position_disagrees_with_the_librarys_own_line_test() {
    // the vertical line x = 1000 + 2^-21 misses the circle by 477 EPS: intersect_cl says None (correct),
    // the line contains p, yet p is reported to be ON the circle.
    let c = Circle::new(Point::new(0.0, 0.0), 1000.0);
    let x = 1000.0 + 2f64.powi(-21);
    let l = Line::between(&Point::new(x, -1.0), &Point::new(x, 1.0));
    let p = Point::new(x, 0.0);
    assert!(l.contains(&p));
    assert!(matches!(intersect_cl(&c, &l), CircleLineIntersection::None));
    assert_ne!(c.position(&p), PointPosition::Border, "a point of a line that misses the circle is on the circle");
}
