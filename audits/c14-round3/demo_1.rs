// C14 candidate 1: shuffle is not a fair permutation over seed families that differ only in the high half of the seed.
//
// Copy to rlib/rand/tests/demo_1.rs and run
//     cargo test --offline -p rlib_rand --test demo_1
//
// `Rng::from_seed(seed)` uses the seed as the LCG state unchanged, the low 32 bits of an LCG state never depend on the
// high 32 bits, and `next_raw` only XORs the high half onto the low half. For the seeds (k << 32) | c (c fixed, 2^32
// seeds) the low 32 state bits are therefore the same for every k at every step, and bit j of the high half depends
// only on bits 0..=j of k. Consequences:
//   * the parity of the draw `next(0..=1)` and the parity of the draw `next(0..=3)` two steps later are both
//     (constant ^ bit 0 of k): only 12 of the 24 arrangements of a 4-element slice are ever produced (60 of 120 for
//     5 elements, 180 of 720 for 6 elements), exactly the symptom commit a821471 was meant to remove;
//   * for the seeds (k << 33) | c the draw `next(0..=1)` does not depend on k at all: a 2-element slice is always
//     left in the same order, whichever of the 2^31 seeds is used.
use rlib_rand::*;
use std::collections::HashMap;

fn arrangements(n: usize, seeds: impl Iterator<Item = u64>) -> HashMap<Vec<u8>, u64> {
    let mut m = HashMap::new();
    for s in seeds {
        let mut rng = Rng::from_seed(s);
        let mut v: Vec<u8> = (0..n as u8).collect();
        rng.shuffle(&mut v);
        *m.entry(v).or_insert(0u64) += 1;
    }
    m
}

fn check(n: usize, seeds: impl Iterator<Item = u64>) {
    let fact: usize = (1..=n).product();
    let m = arrangements(n, seeds);
    let total: u64 = m.values().sum();
    let expected = total as f64 / fact as f64;
    let min = if m.len() < fact { 0 } else { *m.values().min().unwrap() };
    let max = *m.values().max().unwrap();
    assert_eq!(m.len(), fact, "only {} of the {} arrangements of {} elements are reached by {} seeds", m.len(), fact, n, total);
    // "near-equal frequency": very generous, +-50 % of the expected count
    assert!(min as f64 > 0.5 * expected && (max as f64) < 1.5 * expected, "n = {}: counts range from {} to {}, expected {:.0}", n, min, max, expected);
}

// control: the same harness passes on consecutive seeds
#[test]
fn consecutive_seeds_are_fine() {
    for n in 2..=6 {
        check(n, 0..200_000u64);
    }
}

#[test]
fn seeds_differing_in_the_high_half_reach_half_of_the_arrangements_of_4() {
    check(4, (0..200_000u64).map(|k| k << 32));
}

#[test]
fn same_with_arbitrary_common_low_half() {
    check(4, (0..200_000u64).map(|k| (k << 32) | 0xDEAD_BEEF));
}

#[test]
fn arrangements_of_5_and_6() {
    check(5, (0..200_000u64).map(|k| k << 32));
    check(6, (0..200_000u64).map(|k| k << 32));
}

#[test]
fn seeds_k_shl_33_never_swap_a_pair() {
    check(2, (0..200_000u64).map(|k| k << 33));
}

// not a sampling accident: the parity relation holds for random k as well
#[test]
fn parity_relation_for_random_high_halves() {
    let mut src = Rng::from_seed(2024);
    let mut rel = [0u64; 2];
    for _ in 0..200_000 {
        let k: u32 = src.next(..);
        let mut rng = Rng::from_seed(((k as u64) << 32) | 12345);
        let d1: usize = rng.next(0..=1);
        let _d2: usize = rng.next(0..=2);
        let d3: usize = rng.next(0..=3);
        rel[(d1 ^ d3) & 1] += 1;
    }
    assert!(rel[0] > 0 && rel[1] > 0, "parity(d1) ^ parity(d3) is the same for all 200000 seeds: {:?}", rel);
}
