// C14 candidate 2 (weak, by the letter): consecutive draws from a small power-of-two range are periodic with period
// 2^(32+k) although the generator has period 2^64.
//
// Copy to rlib/rand/tests/demo_2.rs and run
//     cargo test --offline -p rlib_rand --test demo_2
// (the brute-force confirmation that really performs 2^32 steps:
//     cargo test --offline --release -p rlib_rand --test demo_2 -- --ignored )
//
// next_raw returns state ^ (state >> 32). The low k bits of that are (low k state bits, period 2^k) XOR (state bits
// 32..32+k, period 2^(32+k)). So the coin-flip stream next(0..2) satisfies x[n + 2^32] = 1 - x[n] and
// x[n + 2^33] = x[n] for every n and every seed; next(0..4) has period 2^34, next::<u8>(..) period 2^40.
use rlib_rand::*;

const A: u64 = 6364136223846793005;
const C: u64 = 1442695040888963407;

/// state after `l` steps from `state`. `Rng::from_seed(s)` has state `s`, so `from_seed(advance(seed, l))` is the
/// generator `from_seed(seed)` after `l` calls (checked in `advance_is_right`).
fn advance(state: u64, mut l: u128) -> u64 {
    let (mut ra, mut rc) = (1u64, 0u64);
    let (mut a, mut c) = (A, C);
    while l > 0 {
        if l & 1 == 1 {
            ra = ra.wrapping_mul(a);
            rc = rc.wrapping_mul(a).wrapping_add(c);
        }
        c = c.wrapping_mul(a).wrapping_add(c);
        a = a.wrapping_mul(a);
        l >>= 1;
    }
    state.wrapping_mul(ra).wrapping_add(rc)
}

#[test]
fn advance_is_right() {
    let mut r = Rng::from_seed(5);
    for _ in 0..12345 {
        let _: u64 = r.next(..);
    }
    let mut r2 = Rng::from_seed(advance(5, 12345));
    for _ in 0..100 {
        assert_eq!(r.next::<u64, _>(..), r2.next::<u64, _>(..));
    }
}

fn differences<T: PartialEq>(seed: u64, lag: u128, draw: impl Fn(&mut Rng) -> T) -> usize {
    let mut a = Rng::from_seed(seed);
    let mut b = Rng::from_seed(advance(seed, lag));
    (0..100_000).filter(|_| draw(&mut a) != draw(&mut b)).count()
}

#[test]
fn coin_flips_have_period_2_pow_33() {
    for seed in [0u64, 42, u64::MAX] {
        // control: at other distances about half of the draws differ
        assert!(differences(seed, (1 << 33) + 1, |r| r.next::<u32, _>(0..2)) > 40_000);
        assert!(differences(seed, 1 << 34, |r| r.next::<u32, _>(0..3)) > 40_000);
        // at distance 2^32 every flip is inverted ...
        let d = differences(seed, 1 << 32, |r| r.next::<u32, _>(0..2));
        assert!(d < 100_000, "seed {}: each of 100000 consecutive draws from 0..2 is the inverse of the draw 2^32 steps later", seed);
        // ... and at distance 2^33 the stream repeats
        let d = differences(seed, 1 << 33, |r| r.next::<u32, _>(0..2));
        assert!(d > 0, "seed {}: 100000 consecutive draws from 0..2 equal the draws 2^33 steps later", seed);
    }
}

#[test]
fn draws_from_0_4_have_period_2_pow_34_and_bytes_2_pow_40() {
    let d = differences(42, 1 << 34, |r| r.next::<i32, _>(0..4));
    assert!(d > 0, "100000 consecutive draws from 0..4 equal the draws 2^34 steps later");
    let d = differences(42, 1 << 40, |r| r.next::<u8, _>(..));
    assert!(d > 0, "100000 consecutive u8 draws equal the draws 2^40 steps later");
}

#[test]
#[ignore]
fn brute_force_2_pow_32_steps() {
    let mut a = Rng::from_seed(42);
    let mut b = a;
    for _ in 0..(1u64 << 32) {
        let _: u64 = b.next(..);
    }
    let same = (0..100_000).filter(|_| a.next::<u32, _>(0..2) == b.next::<u32, _>(0..2)).count();
    assert!(same > 0, "every one of 100000 coin flips is the inverse of the flip 2^32 draws earlier");
}
