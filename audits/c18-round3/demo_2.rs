// C18 candidate 2: f80::min / f80::max are order dependent when one operand is NaN.
// min(1, NaN) = NaN but min(NaN, 1) = 1; max(1, NaN) = 1 but max(NaN, 1) = NaN.
// Every IEEE definition of min/max (minNum/maxNum of 754-2008 = f64::min/max, minimum/maximum and
// minimumNumber/maximumNumber of 754-2019) is commutative in this respect: NaN is *unordered*, so the
// result cannot depend on which side the NaN is on.
use rlib_f80::*;

#[test]
fn min_max_commute_with_nan() {
    f80_init();
    let nan = f80::from(f64::NAN);
    for v in [1.0f64, -1.0, 0.0, f64::INFINITY, f64::NEG_INFINITY, 5e-324] {
        let x = f80::from(v);
        let (a, b): (f64, f64) = (x.min(nan).into(), nan.min(x).into());
        assert_eq!(a.is_nan(), b.is_nan(), "min({v}, NaN) = {a} but min(NaN, {v}) = {b}");
        let (a, b): (f64, f64) = (x.max(nan).into(), nan.max(x).into());
        assert_eq!(a.is_nan(), b.is_nan(), "max({v}, NaN) = {a} but max(NaN, {v}) = {b}");
    }
}

#[test]
fn min_max_agree_with_f64_on_nan() {
    f80_init();
    // f64::min / f64::max (IEEE minNum / maxNum): the non-NaN operand wins, whichever side it is on
    let nan = f80::from(f64::NAN);
    let one = f80::from(1.0);
    let r: f64 = one.min(nan).into();
    assert_eq!(r, 1.0f64.min(f64::NAN));
    let r: f64 = nan.max(one).into();
    assert_eq!(r, f64::NAN.max(1.0));
}
