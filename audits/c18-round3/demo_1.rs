// C18 candidate 1: f80::abs keeps the sign bit of -0.0 (and of negative NaN).
// abs is implemented as `if self < 0 { -self } else { self }`; -0.0 < 0 is false, so abs(-0.0) = -0.0.
// IEEE 754 abs clears the sign bit: abs(-0) = +0, and 1 / abs(-0) = +inf. Here the quotient is -inf,
// i.e. a value that is *less* than every finite number comes out of "1 / |x|".
use rlib_f80::*;
use rlib_num_traits::ZeroOne;

#[test]
fn abs_of_negative_zero_is_positive_zero() {
    f80_init();
    let x = -0.0f64;
    // reference: what f64 (IEEE) does
    assert_eq!(1.0 / x.abs(), f64::INFINITY);

    let a = f80::from(x).abs();
    let q: f64 = (f80::ONE / a).into();
    // fails on the unmodified tree: q == -inf
    assert_eq!(q, f64::INFINITY, "1 / abs(-0) must be +inf, abs(-0) kept its sign bit");
}

#[test]
fn abs_result_is_never_sign_negative() {
    f80_init();
    // abs(x) followed by an exact operation must behave like a non-negative value
    for x in [-0.0f64, -1.0, -f64::MIN_POSITIVE, f64::NEG_INFINITY, 0.0, 1.0] {
        let a = f80::from(x).abs();
        let back: f64 = a.into();
        assert!(back.is_sign_positive(), "abs({:?}) came back sign-negative: {:?}", x, back);
    }
}
