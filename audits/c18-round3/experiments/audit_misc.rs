use rlib_f80::*;
use rlib_num_traits::ZeroOne;

fn bytes(x: f80) -> [u8; 10] {
    unsafe { std::ptr::read(&x as *const f80 as *const [u8; 10]) }
}

#[test]
fn nan_payload_roundtrip() {
    let pats: [u64; 8] = [
        0x7ff8_0000_0000_0000,
        0xfff8_0000_0000_0000,
        0x7ff8_0000_0000_0001,
        0x7fff_ffff_ffff_ffff,
        0x7ff0_0000_0000_0001, // sNaN
        0xfff0_0000_0000_0001, // sNaN
        0x7ff4_0000_0000_0000, // sNaN
        0x7ff7_ffff_ffff_ffff, // sNaN
    ];
    for p in pats {
        let x = f64::from_bits(p);
        let y: f64 = f80::from(x).into();
        println!("{:016x} -> {:?} -> {:016x} {}", p, bytes(f80::from(x)), y.to_bits(), if y.to_bits() == p { "same" } else { "DIFF" });
    }
}

#[test]
fn abs_zero() {
    let z = f80::from(-0.0);
    let a = z.abs();
    println!("abs(-0) bytes {:?}", bytes(a));
    let q: f64 = (f80::ONE / a).into();
    println!("1/abs(-0) = {}", q);
    let n = f80::from(f64::from_bits(0xfff8_0000_0000_0000)).abs();
    println!("abs(-nan) bytes {:?}", bytes(n));
}

#[test]
fn minmax_nan() {
    let n = f80::from(f64::NAN);
    let o = f80::ONE;
    println!("min(1,nan)={:?} min(nan,1)={:?} max(1,nan)={:?} max(nan,1)={:?}", o.min(n), n.min(o), o.max(n), n.max(o));
    let (pz, nz) = (f80::from(0.0), f80::from(-0.0));
    println!("min(+0,-0)={:?} min(-0,+0)={:?} max(+0,-0)={:?} max(-0,+0)={:?}", bytes(pz.min(nz))[9], bytes(nz.min(pz))[9], bytes(pz.max(nz))[9], bytes(nz.max(pz))[9]);
}

fn get_cw() -> u16 {
    let mut cw: u16 = 0;
    unsafe { core::arch::asm!("fnstcw WORD PTR [{0}]", in(reg) &mut cw as *mut u16, options(nostack)) };
    cw
}
fn set_cw(cw: u16) {
    unsafe { core::arch::asm!("fldcw WORD PTR [{0}]", in(reg) &cw as *const u16, options(nostack)) };
}

#[test]
fn control_word() {
    let cw = get_cw();
    println!("default cw {:04x}", cw);
    let t = std::thread::spawn(|| get_cw()).join().unwrap();
    println!("spawned thread cw {:04x}", t);
    // PC = 53 bit
    set_cw((cw & !0x0300) | 0x0200);
    f80_init();
    let a = f80::from(1e17);
    let d = (a + f80::ONE) - a;
    println!("with PC=53 after f80_init: (1e17+1)-1e17 = {:?}", d);
    let t = std::thread::spawn(|| {
        let a = f80::from(1e17);
        (get_cw(), f64::from((a + f80::ONE) - a))
    })
    .join()
    .unwrap();
    println!("child thread spawned under PC=53: cw {:04x} result {}", t.0, t.1);
    set_cw(cw);
}

#[test]
fn libm_calls_between() {
    // do std float functions disturb the x87 state?
    let a = f80::from(1e17);
    let mut s = 0.0f64;
    for i in 0..1000 {
        let x = i as f64 * 0.37;
        s += x.sin() + x.exp().ln() + x.powf(1.3) + (x % 0.7) + x.tan().atan() + x.sqrt() + x.cbrt() + x.hypot(2.0);
        s += (x as f32).sin() as f64;
        let d = (a + f80::ONE) - a;
        assert!(d == f80::ONE);
    }
    println!("{} cw {:04x}", s, get_cw());
}

#[test]
fn consts_and_default() {
    assert!(f80::default() == f80::ZERO);
    assert_eq!(bytes(f80::ZERO), bytes(f80::from(0.0)));
    assert_eq!(bytes(f80::ONE), bytes(f80::from(1.0)));
    assert_eq!(bytes(f80::ONE + f80::ZERO), bytes(f80::from(1.0)));
    let x = f80::ONE / f80::from(3.0);
    println!("1/3 bytes {:x?}", bytes(x));
    println!("display {} {:?} {:e}", x, x, f64::from(x));
}
