#![allow(dead_code)]
use rlib_f80::*;
use std::cmp::Ordering;

// ---------- raw access ----------
fn bytes(x: f80) -> [u8; 10] {
    unsafe { std::ptr::read(&x as *const f80 as *const [u8; 10]) }
}
#[derive(Clone, Copy, PartialEq, Eq, Debug)]
struct Raw {
    sign: bool,
    be: u16, // biased exponent 15 bits
    m: u64,
}
fn raw(x: f80) -> Raw {
    let b = bytes(x);
    let m = u64::from_le_bytes([b[0], b[1], b[2], b[3], b[4], b[5], b[6], b[7]]);
    let se = u16::from_le_bytes([b[8], b[9]]);
    Raw { sign: se >> 15 == 1, be: se & 0x7fff, m }
}
fn from_raw(r: Raw) -> f80 {
    let mut b = [0u8; 16];
    b[..8].copy_from_slice(&r.m.to_le_bytes());
    let se = r.be | ((r.sign as u16) << 15);
    b[8..10].copy_from_slice(&se.to_le_bytes());
    #[repr(align(16))]
    struct A([u8; 16]);
    let a = A(b);
    unsafe { std::ptr::read(&a as *const A as *const f80) }
}

// ---------- soft reference ----------
#[derive(Clone, Copy, Debug, PartialEq)]
enum V {
    Nan,
    Inf(bool),
    Zero(bool),
    Fin(bool, u64, i32), // sign, normalized mantissa (top bit set), exponent of lsb
}
fn decode(r: Raw) -> V {
    if r.be == 0x7fff {
        if r.m << 1 == 0 {
            V::Inf(r.sign)
        } else {
            V::Nan
        }
    } else if r.m == 0 {
        V::Zero(r.sign)
    } else {
        let e = if r.be == 0 { -16445 } else { r.be as i32 - 16383 - 63 };
        let lz = r.m.leading_zeros() as i32;
        V::Fin(r.sign, r.m << lz, e - lz)
    }
}
fn decode64(x: f64) -> V {
    let b = x.to_bits();
    let s = b >> 63 == 1;
    let e = ((b >> 52) & 0x7ff) as i32;
    let f = b & ((1u64 << 52) - 1);
    if e == 0x7ff {
        if f == 0 {
            V::Inf(s)
        } else {
            V::Nan
        }
    } else if e == 0 {
        if f == 0 {
            V::Zero(s)
        } else {
            let lz = f.leading_zeros() as i32;
            V::Fin(s, f << lz, -1074 - lz)
        }
    } else {
        let m = f | (1u64 << 52);
        V::Fin(s, m << 11, e - 1075 - 11)
    }
}
// round (mant, e_lsb, sticky) to f80
fn round80(sign: bool, mant: u128, e: i32, sticky: bool) -> Raw {
    if mant == 0 {
        assert!(!sticky);
        return Raw { sign, be: 0, m: 0 };
    }
    let l = 128 - mant.leading_zeros() as i32;
    let mut shift = l - 64;
    if e + shift < -16445 {
        shift = -16445 - e;
    }
    let (mut m, e2): (u128, i32);
    if shift <= 0 {
        assert!(!sticky);
        m = mant << (-shift);
        e2 = e + shift;
    } else {
        let (q, rem_half, rem_rest);
        if shift > 128 {
            q = 0;
            rem_half = false;
            rem_rest = true;
        } else if shift == 128 {
            q = 0;
            rem_half = mant >> 127 == 1;
            rem_rest = (mant << 1) != 0 || sticky;
        } else {
            q = mant >> shift;
            rem_half = (mant >> (shift - 1)) & 1 == 1;
            rem_rest = (mant & ((1u128 << (shift - 1)) - 1)) != 0 || sticky;
        }
        m = q;
        if rem_half && (rem_rest || (q & 1 == 1)) {
            m += 1;
        }
        e2 = e + shift;
    }
    let mut e2 = e2;
    if m >> 64 != 0 {
        m >>= 1;
        e2 += 1;
    }
    let m = m as u64;
    if m >> 63 == 1 {
        let be = e2 + 16446;
        assert!(be >= 1);
        if be >= 0x7fff {
            return Raw { sign, be: 0x7fff, m: 1 << 63 };
        }
        Raw { sign, be: be as u16, m }
    } else {
        assert_eq!(e2, -16445);
        Raw { sign, be: 0, m }
    }
}
const INF_M: u64 = 1 << 63;
fn rinf(s: bool) -> Option<Raw> {
    Some(Raw { sign: s, be: 0x7fff, m: INF_M })
}
fn rzero(s: bool) -> Option<Raw> {
    Some(Raw { sign: s, be: 0, m: 0 })
}
// None = NaN expected
fn ref_add(a: V, b: V) -> Option<Raw> {
    match (a, b) {
        (V::Nan, _) | (_, V::Nan) => None,
        (V::Inf(s), V::Inf(t)) => {
            if s == t {
                rinf(s)
            } else {
                None
            }
        }
        (V::Inf(s), _) | (_, V::Inf(s)) => rinf(s),
        (V::Zero(s), V::Zero(t)) => rzero(s && t),
        (V::Zero(_), V::Fin(s, m, e)) | (V::Fin(s, m, e), V::Zero(_)) => Some(round80(s, m as u128, e, false)),
        (V::Fin(sa, ma, ea), V::Fin(sb, mb, eb)) => {
            let (sa, ma, ea, sb, mb, eb) = if ea >= eb { (sa, ma, ea, sb, mb, eb) } else { (sb, mb, eb, sa, ma, ea) };
            let d = ea - eb;
            let a = (ma as u128) << 63;
            let bb = (mb as u128) << 63;
            let (b2, st) = if d >= 128 {
                (0u128, true)
            } else {
                (bb >> d, d > 0 && (bb & ((1u128 << d) - 1)) != 0)
            };
            let e = ea - 63;
            if sa == sb {
                Some(round80(sa, a + b2, e, st))
            } else {
                // a - b2 - (sticky epsilon)
                if a > b2 || (a == b2 && !st) {
                    let mut r = a - b2;
                    if st {
                        r -= 1;
                    }
                    if r == 0 && !st {
                        return rzero(false);
                    }
                    Some(round80(sa, r, e, st))
                } else {
                    // b2 (+eps) > a ; d must be 0 here so st false
                    assert!(!st);
                    Some(round80(sb, b2 - a, e, false))
                }
            }
        }
    }
}
fn negv(v: V) -> V {
    match v {
        V::Nan => V::Nan,
        V::Inf(s) => V::Inf(!s),
        V::Zero(s) => V::Zero(!s),
        V::Fin(s, m, e) => V::Fin(!s, m, e),
    }
}
fn ref_mul(a: V, b: V) -> Option<Raw> {
    match (a, b) {
        (V::Nan, _) | (_, V::Nan) => None,
        (V::Inf(_), V::Zero(_)) | (V::Zero(_), V::Inf(_)) => None,
        (V::Inf(s), V::Inf(t)) | (V::Inf(s), V::Fin(t, _, _)) | (V::Fin(t, _, _), V::Inf(s)) => rinf(s ^ t),
        (V::Zero(s), V::Zero(t)) | (V::Zero(s), V::Fin(t, _, _)) | (V::Fin(t, _, _), V::Zero(s)) => rzero(s ^ t),
        (V::Fin(sa, ma, ea), V::Fin(sb, mb, eb)) => Some(round80(sa ^ sb, ma as u128 * mb as u128, ea + eb, false)),
    }
}
fn ref_div(a: V, b: V) -> Option<Raw> {
    match (a, b) {
        (V::Nan, _) | (_, V::Nan) => None,
        (V::Inf(_), V::Inf(_)) | (V::Zero(_), V::Zero(_)) => None,
        (V::Inf(s), V::Zero(t)) | (V::Inf(s), V::Fin(t, _, _)) => rinf(s ^ t),
        (V::Fin(s, _, _), V::Zero(t)) => rinf(s ^ t),
        (V::Zero(s), V::Inf(t)) | (V::Zero(s), V::Fin(t, _, _)) | (V::Fin(s, _, _), V::Inf(t)) => rzero(s ^ t),
        (V::Fin(sa, ma, ea), V::Fin(sb, mb, eb)) => {
            let n1 = (ma as u128) << 63;
            let q1 = n1 / mb as u128;
            let r1 = n1 % mb as u128;
            let n2 = r1 << 64;
            let q2 = n2 / mb as u128;
            let r2 = n2 % mb as u128;
            assert!(q1 >> 64 == 0 && q2 >> 64 == 0);
            Some(round80(sa ^ sb, (q1 << 64) | q2, ea - eb - 63 - 64, r2 != 0))
        }
    }
}
fn ref_to_f64(v: V) -> Option<u64> {
    match v {
        V::Nan => None,
        V::Inf(s) => Some(((s as u64) << 63) | (0x7ffu64 << 52)),
        V::Zero(s) => Some((s as u64) << 63),
        V::Fin(s, m, e) => {
            // value m*2^e, m has 64 bits. keep 53 bits; min lsb exp -1074
            let mut shift = 11;
            if e + shift < -1074 {
                shift = -1074 - e;
            }
            let (q, half, rest) = if shift > 64 {
                (0u64, false, true)
            } else if shift == 64 {
                (0u64, m >> 63 == 1, m << 1 != 0)
            } else {
                (m >> shift, (m >> (shift - 1)) & 1 == 1, m & ((1u64 << (shift - 1)) - 1) != 0)
            };
            let mut q = q;
            if half && (rest || q & 1 == 1) {
                q += 1;
            }
            let mut e2 = e + shift;
            if q >> 53 != 0 {
                q >>= 1;
                e2 += 1;
            }
            let sb = (s as u64) << 63;
            if q >> 52 == 1 {
                let be = e2 + 1075;
                if be >= 0x7ff {
                    return Some(sb | (0x7ffu64 << 52));
                }
                Some(sb | ((be as u64) << 52) | (q & ((1u64 << 52) - 1)))
            } else {
                assert_eq!(e2, -1074);
                Some(sb | q)
            }
        }
    }
}
fn is_nan_raw(r: Raw) -> bool {
    r.be == 0x7fff && r.m << 1 != 0
}
fn check(op: &str, a: f80, b: f80, got: f80, want: Option<Raw>) {
    let g = raw(got);
    match want {
        None => assert!(is_nan_raw(g), "{} {:?} {:?}: got {:?} want NaN", op, raw(a), raw(b), g),
        Some(w) => assert_eq!(g, w, "{} {:?} {:?}", op, raw(a), raw(b)),
    }
}
fn check_all(a: f80, b: f80) {
    let (va, vb) = (decode(raw(a)), decode(raw(b)));
    check("add", a, b, a + b, ref_add(va, vb));
    check("sub", a, b, a - b, ref_add(va, negv(vb)));
    check("mul", a, b, a * b, ref_mul(va, vb));
    check("div", a, b, a / b, ref_div(va, vb));
    let mut c = a;
    c += b;
    check("add=", a, b, c, ref_add(va, vb));
    let mut c = a;
    c -= b;
    check("sub=", a, b, c, ref_add(va, negv(vb)));
    let mut c = a;
    c *= b;
    check("mul=", a, b, c, ref_mul(va, vb));
    let mut c = a;
    c /= b;
    check("div=", a, b, c, ref_div(va, vb));
    // neg
    let n = raw(-a);
    let ra = raw(a);
    assert_eq!(n, Raw { sign: !ra.sign, ..ra });
    // f80->f64
    let d: f64 = a.into();
    match ref_to_f64(va) {
        None => assert!(d.is_nan()),
        Some(w) => assert_eq!(d.to_bits(), w, "to_f64 {:?}", ra),
    }
    check_cmp(a, b);
}
fn ref_cmp(a: V, b: V) -> Option<Ordering> {
    fn key(v: V) -> Option<(i32, i64, u64)> {
        // sign class, exponent (of msb), mantissa
        match v {
            V::Nan => None,
            V::Inf(s) => Some((if s { -1 } else { 1 }, i64::MAX, 0)),
            V::Zero(_) => Some((0, 0, 0)),
            V::Fin(s, m, e) => Some((if s { -1 } else { 1 }, e as i64, m)),
        }
    }
    let (ka, kb) = (key(a)?, key(b)?);
    if ka.0 != kb.0 {
        return Some(ka.0.cmp(&kb.0));
    }
    let o = (ka.1, ka.2).cmp(&(kb.1, kb.2));
    Some(if ka.0 < 0 { o.reverse() } else { o })
}
fn check_cmp(a: f80, b: f80) {
    let (va, vb) = (decode(raw(a)), decode(raw(b)));
    let o = ref_cmp(va, vb);
    let ctx = || format!("{:?} {:?}", raw(a), raw(b));
    assert_eq!(a < b, o == Some(Ordering::Less), "lt {}", ctx());
    assert_eq!(a <= b, matches!(o, Some(Ordering::Less) | Some(Ordering::Equal)), "le {}", ctx());
    assert_eq!(a > b, o == Some(Ordering::Greater), "gt {}", ctx());
    assert_eq!(a >= b, matches!(o, Some(Ordering::Greater) | Some(Ordering::Equal)), "ge {}", ctx());
    assert_eq!(a == b, o == Some(Ordering::Equal), "eq {}", ctx());
    assert_eq!(a != b, o != Some(Ordering::Equal), "ne {}", ctx());
    assert_eq!(a.partial_cmp(&b), o, "pc {}", ctx());
    let (mn, mx) = (a.min(b), a.max(b));
    if let Some(o) = o {
        let (emn, emx) = match o {
            Ordering::Less => (va, vb),
            Ordering::Greater => (vb, va),
            Ordering::Equal => (va, vb),
        };
        if o == Ordering::Equal {
            // either operand acceptable by value
            assert!(ref_cmp(decode(raw(mn)), va) == Some(Ordering::Equal));
            assert!(ref_cmp(decode(raw(mx)), va) == Some(Ordering::Equal));
            assert!(raw(mn) == raw(a) || raw(mn) == raw(b));
            assert!(raw(mx) == raw(a) || raw(mx) == raw(b));
        } else {
            assert_eq!(decode(raw(mn)), emn, "min {}", ctx());
            assert_eq!(decode(raw(mx)), emx, "max {}", ctx());
        }
    }
    // abs
    let ab = raw(a.abs());
    match va {
        V::Nan => assert!(is_nan_raw(ab)),
        V::Zero(_) => assert!(ab.be == 0 && ab.m == 0),
        _ => assert_eq!(ab, Raw { sign: false, ..raw(a) }, "abs {}", ctx()),
    }
}

fn boundary() -> Vec<f64> {
    let mut bits: Vec<u64> = vec![];
    let mut push = |b: u64| {
        for d in [0u64, 1, 2, u64::MAX, u64::MAX - 1] {
            let x = b.wrapping_add(d);
            bits.push(x & !(1 << 63));
            bits.push(x | (1 << 63));
        }
    };
    push(0);
    push(1);
    push(0x000f_ffff_ffff_ffff);
    push(0x0010_0000_0000_0000);
    push(0x7ff0_0000_0000_0000);
    push(0x7ff8_0000_0000_0000);
    push(0x7fff_ffff_ffff_ffff);
    push(0x7ff0_0000_0000_0001);
    for e in [1u64, 2, 52, 53, 54, 63, 64, 65, 1000, 1022, 1023, 1024, 1075, 1086, 1087, 2000, 2045, 2046] {
        push(e << 52);
        push((e << 52) | 0x000f_ffff_ffff_ffff);
        push((e << 52) | 0x0008_0000_0000_0000);
        push((e << 52) | 0x0005_5555_5555_5555);
        push((e << 52) | 0x000a_aaaa_aaaa_aaaa);
        push((e << 52) | 0x0000_0000_ffff_ffff);
        push((e << 52) | 0x000f_ffff_0000_0000);
    }
    for k in 0..52 {
        push(1u64 << k);
        push((1u64 << k) - 1);
    }
    bits.sort();
    bits.dedup();
    bits.into_iter().map(f64::from_bits).collect()
}

struct Rng(u64);
impl Rng {
    fn next(&mut self) -> u64 {
        self.0 ^= self.0 << 13;
        self.0 ^= self.0 >> 7;
        self.0 ^= self.0 << 17;
        self.0
    }
}

#[test]
fn fam1_boundary_pairs() {
    let b = boundary();
    eprintln!("boundary size {}", b.len());
    for &x in &b {
        let fx = f80::from(x);
        // f64 -> f80 exactness
        match decode64(x) {
            V::Nan => assert!(is_nan_raw(raw(fx))),
            v => assert_eq!(decode(raw(fx)), v),
        }
        let back: f64 = fx.into();
        if !x.is_nan() {
            assert_eq!(back.to_bits(), x.to_bits());
        } else {
            assert!(back.is_nan());
        }
        for &y in &b {
            check_all(fx, f80::from(y));
        }
    }
}

#[test]
fn fam2_random_pairs() {
    let mut r = Rng(0x9e3779b97f4a7c15);
    for i in 0..3_000_000u64 {
        let (mut x, mut y) = (r.next(), r.next());
        if i % 3 == 0 {
            // close exponents
            y = (y & 0x800f_ffff_ffff_ffff) | (x & 0x7ff0_0000_0000_0000);
            if i % 6 == 0 {
                let d = r.next() % 130;
                let e = ((x >> 52) & 0x7ff).saturating_sub(d);
                y = (y & 0x800f_ffff_ffff_ffff) | (e << 52);
            }
        }
        if i % 7 == 0 {
            x &= 0x800f_ffff_ffff_ffff; // subnormal
        }
        let (fx, fy) = (f80::from(f64::from_bits(x)), f80::from(f64::from_bits(y)));
        check_all(fx, fy);
    }
}

#[test]
fn fam3_chains() {
    // chains whose intermediates use all 64 bits and reach f80 subnormals / overflow
    let mut r = Rng(0x1234567);
    for _ in 0..20000 {
        let mut acc = f80::from(f64::from_bits(r.next()));
        for _ in 0..60 {
            let y = f80::from(f64::from_bits(r.next()));
            let op = r.next() % 4;
            let (va, vy) = (decode(raw(acc)), decode(raw(y)));
            let (res, want) = match op {
                0 => (acc + y, ref_add(va, vy)),
                1 => (acc - y, ref_add(va, negv(vy))),
                2 => (acc * y, ref_mul(va, vy)),
                _ => (acc / y, ref_div(va, vy)),
            };
            check("chain", acc, y, res, want);
            check_cmp(res, acc);
            let d: f64 = res.into();
            match ref_to_f64(decode(raw(res))) {
                None => assert!(d.is_nan()),
                Some(w) => assert_eq!(d.to_bits(), w),
            }
            acc = res;
            if is_nan_raw(raw(acc)) {
                break;
            }
        }
    }
}

#[test]
fn fam4_extreme_chains() {
    // drive into f80 subnormal range and overflow range deliberately
    let mut r = Rng(0xabcdef);
    let tiny = f80::from(f64::from_bits(1)); // 2^-1074
    let huge = f80::from(f64::MAX);
    for _ in 0..3000 {
        let mut acc = f80::from(f64::from_bits((r.next() & 0x000f_ffff_ffff_ffff) | (1 << 52)));
        // go down to around 2^-16400
        for _ in 0..14 {
            let n = acc * tiny;
            check("mul", acc, tiny, n, ref_mul(decode(raw(acc)), decode(raw(tiny))));
            acc = n;
        }
        // now around 2^-15036+...; continue with random tiny-ish multiplications
        for _ in 0..40 {
            let y = f80::from(f64::from_bits((r.next() & 0x800f_ffff_ffff_ffff) | ((900 + r.next() % 200) << 52)));
            let n = acc * y;
            check("mul", acc, y, n, ref_mul(decode(raw(acc)), decode(raw(y))));
            let y2 = f80::from(f64::from_bits(r.next() & 0x801f_ffff_ffff_ffff));
            let z = y2 * tiny * tiny * tiny * tiny * tiny * tiny * tiny * tiny * tiny * tiny * tiny * tiny * tiny * tiny;
            check_all(n, z);
            check_all(z, n);
            acc = n;
        }
        // upward
        let mut acc = f80::from(f64::from_bits((r.next() & 0x000f_ffff_ffff_ffff) | (1023 << 52)));
        for _ in 0..20 {
            let y = if r.next() & 1 == 0 { huge } else { f80::from(f64::from_bits((r.next() & 0x800f_ffff_ffff_ffff) | ((1023 + r.next() % 1023) << 52))) };
            let n = acc * y;
            check("mul", acc, y, n, ref_mul(decode(raw(acc)), decode(raw(y))));
            check_all(n, acc);
            check_all(acc, n);
            let q = n / tiny;
            check("div", n, tiny, q, ref_div(decode(raw(n)), decode(raw(tiny))));
            acc = n;
        }
    }
}

#[test]
fn fam5_f80_subnormal_and_overflow_thresholds() {
    let mut r = Rng(0x5151);
    let tiny = f80::from(f64::from_bits(1)); // 2^-1074
    let mut base = f80::from(1.0);
    for _ in 0..15 {
        base = base * tiny;
    } // 2^-16110
    let huge = f80::from(f64::from_bits(0x7fe0_0000_0000_0000)); // 2^1023
    let mut top = f80::from(1.0);
    for _ in 0..15 {
        top = top * huge;
    } // 2^15345
    let mut subs: Vec<f80> = vec![];
    let mut cnt_sub = 0u64;
    let mut cnt_inf = 0u64;
    for i in 0..200000u64 {
        let k = 200 + r.next() % 150; // total exp -16310 .. -16460
        let m = f64::from_bits((r.next() & 0x800f_ffff_ffff_ffff) | ((1023 - k) << 52));
        let m = if i % 5 == 0 { f64::from_bits(m.to_bits() & 0xfff0_0000_0000_0000) } else { m };
        let y = f80::from(m);
        let x = f80::from(f64::from_bits((r.next() & 0x000f_ffff_ffff_ffff) | (1023 << 52))) * base;
        let p = x * y;
        check("mul", x, y, p, ref_mul(decode(raw(x)), decode(raw(y))));
        if raw(p).be == 0 {
            cnt_sub += 1;
        }
        if subs.len() < 400 {
            subs.push(p);
        } else {
            let j = (r.next() % 400) as usize;
            check_all(p, subs[j]);
            check_all(subs[j], p);
            subs[j] = p;
        }
        // division producing subnormals
        let big = f80::from(f64::from_bits((r.next() & 0x000f_ffff_ffff_ffff) | ((1023 + k) << 52)));
        let q = x / big;
        check("div", x, big, q, ref_div(decode(raw(x)), decode(raw(big))));
        // overflow threshold: top * 2^(1023+-) * mant
        let e = 1023 + 1010 + r.next() % 14 + if i % 2 == 0 { 0 } else { 1 };
        let w = f80::from(f64::from_bits((r.next() & 0x800f_ffff_ffff_ffff) | (e.min(2046) << 52)));
        let w = if i % 3 == 0 { f80::from(f64::from_bits(f64::from(w).to_bits() | 0x000f_ffff_ffff_ffff)) } else { w };
        let t0 = top * w;
        check("mul", top, w, t0, ref_mul(decode(raw(top)), decode(raw(w))));
        let w2 = f80::from(f64::from_bits((r.next() & 0x000f_ffff_ffff_ffff) | ((1023 + r.next() % 30) << 52)));
        let t = t0 * w2;
        check("mul", t0, w2, t, ref_mul(decode(raw(t0)), decode(raw(w2))));
        let t2 = t + t;
        check("add", t, t, t2, ref_add(decode(raw(t)), decode(raw(t))));
        if raw(t2).be == 0x7fff {
            cnt_inf += 1;
        }
        let t3 = t / x;
        check("div", t, x, t3, ref_div(decode(raw(t)), decode(raw(x))));
        check_all(t, t2);
    }
    eprintln!("subnormal products {} overflowed sums {}", cnt_sub, cnt_inf);
    assert!(cnt_sub > 1000 && cnt_inf > 1000);
}

#[test]
fn fam6_reference_sanity_detects_53bit_rounding() {
    // mutation check of the reference: with PC=53 the hardware rounds to 53 bits and the reference must notice
    let r = std::thread::spawn(|| {
        let mut cw: u16 = 0;
        unsafe { core::arch::asm!("fnstcw WORD PTR [{0}]", in(reg) &mut cw as *mut u16, options(nostack)) };
        let cw2 = (cw & !0x0300) | 0x0200;
        unsafe { core::arch::asm!("fldcw WORD PTR [{0}]", in(reg) &cw2 as *const u16, options(nostack)) };
        let a = f80::from(1e17);
        let b = f80::from(1.0);
        let s = a + b;
        raw(s) == ref_add(decode(raw(a)), decode(raw(b))).unwrap()
    })
    .join()
    .unwrap();
    assert!(!r);
}

#[test]
fn fam7_threads_context_switches() {
    let hs: Vec<_> = (0..16u64)
        .map(|t| {
            std::thread::spawn(move || {
                let mut r = Rng(0x777 + t * 0x9e3779b97f4a7c15);
                for i in 0..400_000u64 {
                    let (fx, fy) = (f80::from(f64::from_bits(r.next())), f80::from(f64::from_bits(r.next())));
                    check_all(fx, fy);
                    if i % 1000 == 0 {
                        std::thread::yield_now();
                    }
                }
            })
        })
        .collect();
    for h in hs {
        h.join().unwrap();
    }
}

fn to64_check(x: f80) {
    let d: f64 = x.into();
    match ref_to_f64(decode(raw(x))) {
        None => assert!(d.is_nan()),
        Some(w) => assert_eq!(d.to_bits(), w, "to_f64 {:?}", raw(x)),
    }
}

#[test]
fn fam8_halfway_to_f64() {
    let mut r = Rng(0x8888);
    let mut ties = 0u64;
    for i in 0..500_000u64 {
        let bits = match i % 4 {
            0 => r.next() & 0x7fff_ffff_ffff_ffff,
            1 => r.next() & 0x000f_ffff_ffff_ffff,                      // subnormal
            2 => (r.next() & 0x000f_ffff_ffff_ffff) | (0x7fe << 52),      // top binade
            _ => (r.next() & 0x003f_ffff_ffff_ffff),                     // near subnormal boundary
        };
        let x = f64::from_bits(bits);
        if !x.is_finite() {
            continue;
        }
        // half ulp of x as f64: next - x over 2
        let nx = f64::from_bits(bits + 1);
        let fx = f80::from(x);
        let half = if nx.is_finite() { (f80::from(nx) - fx) / f80::from(2.0) } else { f80::from(2f64.powi(969)) };
        let eps = half / f80::from(2f64.powi(10));
        let eps1 = half / f80::from(2f64.powi(11)); // one f80 ulp for normal x
        for s in [1.0, -1.0] {
            let sg = f80::from(s);
            let t = (fx + half) * sg;
            // fx+half is exact in f80 (needs at most 54 bits)
            if let V::Fin(_, m, _) = decode(raw(t)) {
                if m.trailing_zeros() >= 10 {
                    ties += 1;
                }
            }
            to64_check(t);
            to64_check((fx + half + eps) * sg);
            to64_check((fx + half - eps) * sg);
            to64_check((fx + half + eps1) * sg);
            to64_check((fx + half - eps1) * sg);
            to64_check((fx + eps1) * sg);
            to64_check((fx - eps1) * sg);
        }
    }
    assert!(ties > 100000);
    // below min subnormal
    let t = f80::from(f64::from_bits(1));
    for k in 1..80 {
        let d = f80::from(2f64.powi(k));
        for m in [1.0, 1.5, 1.0000000000000002, 3.0, 0.9999999999999999] {
            to64_check(t / d * f80::from(m));
            to64_check(-(t / d * f80::from(m)));
        }
    }
}

#[test]
fn fam9_halfway_64bit_add_mul() {
    let mut r = Rng(0x9999);
    let two11 = f80::from(2048.0);
    let two32 = f80::from(4294967296.0);
    for _ in 0..300_000u64 {
        // build full 64-bit integer significand n = hi*2^32 + lo, then scale
        let n = r.next() | (1 << 63);
        let hi = f80::from((n >> 32) as f64);
        let lo = f80::from((n & 0xffff_ffff) as f64);
        let x = hi * two32 + lo;
        assert_eq!(decode(raw(x)), V::Fin(false, n, 0));
        for y in [0.5, 1.5, 0.25, 0.75, 0.5000000000000001, 0.49999999999999994, 2.5, 1e-300, 5e-324] {
            for s in [1.0, -1.0] {
                let fy = f80::from(y * s);
                check_all(x, fy);
                check_all(fy, x);
                check_all(-x, fy);
            }
        }
        // products needing 128 bits with tie-like tails
        let n2 = (r.next() | (1 << 63)) & !0x7ff;
        let y = f80::from((n2 >> 11) as f64) * two11;
        check_all(x, y);
        let z = x / y;
        check_all(z, y); // z*y close to x: long carry chains
        check_all(z * y, x);
    }
}

#[test]
fn fam10_roundtrip_bits() {
    let mut r = Rng(0xaaaa);
    let mut snan = 0;
    for _ in 0..5_000_000u64 {
        let b = r.next();
        let x = f64::from_bits(b);
        let y: f64 = f80::from(x).into();
        if x.is_nan() {
            assert!(y.is_nan());
            if y.to_bits() != b {
                snan += 1;
                assert_eq!(y.to_bits(), b | (1 << 51));
            }
        } else {
            assert_eq!(y.to_bits(), b);
        }
    }
    eprintln!("NaN patterns whose bits changed (signalling NaNs quieted): {}", snan);
}
