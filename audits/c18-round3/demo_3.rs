// C18 candidate 3: f64 -> f80 -> f64 is not the identity on signalling-NaN bit patterns.
// `fld QWORD PTR` raises #IA (masked) on a signalling NaN and loads the quieted NaN, so bit 51 of the
// f64 comes back set. The property quantifies over NaN operands and random bit patterns
// (about 1 random pattern in 4096 is a signalling NaN).
use rlib_f80::*;

#[test]
fn roundtrip_is_identity_on_all_bit_patterns() {
    f80_init();
    for bits in [
        0x7ff8_0000_0000_0000u64, // quiet NaN: ok
        0x7ff8_0000_0000_0001,    // quiet NaN with payload: ok
        0x7ff0_0000_0000_0001,    // signalling NaN: comes back as 0x7ff8_0000_0000_0001
        0xfff4_0000_0000_0000,
        0x7ff7_ffff_ffff_ffff,
    ] {
        let x = f64::from_bits(bits);
        let y: f64 = f80::from(x).into();
        assert_eq!(y.to_bits(), bits, "f64 -> f80 -> f64 changed {:#018x} into {:#018x}", bits, y.to_bits());
    }
}

#[test]
fn roundtrip_random_bit_patterns() {
    f80_init();
    let mut s = 0x9e37_79b9_7f4a_7c15u64;
    for _ in 0..1_000_000 {
        s ^= s << 13;
        s ^= s >> 7;
        s ^= s << 17;
        let y: f64 = f80::from(f64::from_bits(s)).into();
        assert_eq!(y.to_bits(), s, "f64 -> f80 -> f64 changed {:#018x} into {:#018x}", s, y.to_bits());
    }
}
