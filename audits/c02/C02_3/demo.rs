// Crate: rlib_segtree  (copy to rlib/segtree/tests/c02_3_demo.rs)
// Run:   cargo test --offline -p rlib_segtree --test c02_3_demo       (DEBUG only; passes with --release)
//
// The pending-modification tag `md` of MinAdd/MaxAdd (and SumAdd) is also accumulated on LEAVES, where it is
// never pushed and never cleared (only `set` replaces it), and on inner nodes until something descends through
// them.  The tag can therefore overflow although every element value and every single modifier is in range:
// the history below panics with "attempt to add with overflow" inside `modify` (overflow checks on).
use rlib_segtree::segtree_items::MinAdd;
use rlib_segtree::Segtree;

#[test]
fn leaf_tag_overflows_while_values_stay_in_range() {
    let mut t: Segtree<MinAdd<i32>, i32> = Segtree::new(3, MinAdd::new(0));
    t.set(1, MinAdd::new(-2_000_000_000));
    t.modify(1, 1, &2_000_000_000); // value 0
    t.modify(1, 1, &2_000_000_000); // value 2_000_000_000 (< i32::MAX); leaf tag would be 4e9 -> panic
    assert_eq!(t.ask(1, 1).v, 2_000_000_000);
    assert_eq!(t.lower_bound(0, |it| it.v <= -1), None);
    assert_eq!(t.lower_bound(1, |it| it.v <= 2_000_000_000), Some(1));
}
