// Crate: rlib_segtree  (copy to rlib/segtree/tests/c02_2_demo.rs)
// Run:   cargo test --offline -p rlib_segtree --test c02_2_demo       (fails in debug and with --release alike)
//
// Min<f64>/MinAdd<f64>::default() is f64::MAX and Max<f64>/MaxAdd<f64>::default() is f64::MIN (the most
// negative FINITE number), so Default is not the identity of merge for +inf / -inf elements.  The search
// seeds its carried aggregate with T::default(); the predicate is therefore shown f64::MAX instead of +inf
// for a range of +inf "empty slot" sentinels and the search reports an index that does not satisfy it.
use rlib_segtree::segtree_items::{Max, MaxAdd, Min, MinAdd};
use rlib_segtree::Segtree;

#[test]
fn min_f64_all_infinite_finds_a_finite_minimum() {
    let inf = f64::INFINITY;
    let n = 5;
    let mut t = Segtree::from_iter((0..n).map(|_| Min::new(inf)));
    for l in 0..n {
        let expected = (l..n).find(|&r| t.ask(l, r).v < inf); // None: every slot is +inf
        assert_eq!(expected, None);
        assert_eq!(t.lower_bound(l, |it| it.v < inf), expected, "forward from {}", l);
    }
}

#[test]
fn min_f64_rev_and_predicate_argument() {
    let inf = f64::INFINITY;
    let mut t = Segtree::from_iter([1.0, inf, inf].iter().map(|&x| Min::new(x)));
    // largest l <= 2 with a finite minimum on [l, 2] is 0
    let seen = std::cell::RefCell::new(vec![]);
    let got = t.lower_bound_rev(2, |it| {
        seen.borrow_mut().push(it.v);
        it.v.is_finite()
    });
    // every aggregate shown must be the min of an actual range [l, 2]: +inf or 1.0, never f64::MAX
    assert!(seen.borrow().iter().all(|&v| v == inf || v == 1.0), "shown: {:?}", seen.borrow());
    assert_eq!(got, Some(0));
}

#[test]
fn minadd_maxadd_max_f64() {
    let inf = f64::INFINITY;
    let n = 4;
    let mut t: Segtree<MinAdd<f64>, f64> = Segtree::new(n, MinAdd::new(inf));
    t.modify(0, n - 1, &1.0);
    assert_eq!(t.lower_bound(1, |it| it.v.is_finite()), None);
    let mut t: Segtree<MaxAdd<f64>, f64> = Segtree::new(n, MaxAdd::new(-inf));
    t.modify(1, 2, &1.0);
    assert_eq!(t.lower_bound_rev(3, |it| it.v > -inf), None);
    let mut t = Segtree::from_iter((0..n).map(|_| Max::new(-inf)));
    assert_eq!(t.lower_bound(0, |it| it.v > -inf), None);
}
