// Crate: rlib_segtree  (copy to rlib/segtree/tests/c02_1_demo.rs)
// Run:   cargo test --offline -p rlib_segtree --test c02_1_demo       (fails in debug and with --release alike)
//
// Sum<f64> / SumAdd<f64>: lower_bound / lower_bound_rev return None (or an index one too far) although the
// predicate is true for ask(l, r) of an existing r -- and although the predicate was shown, inside the very
// same call, a satisfying aggregate of [l, n-1].
use rlib_segtree::segtree_items::{Sum, SumAdd};
use rlib_segtree::Segtree;
use std::cell::RefCell;

fn weights() -> Vec<f64> {
    vec![0.1, 0.2, 0.3, 0.4, 0.5, 0.6, 0.7, 0.8]
}

#[test]
fn forward_search_for_the_total_weight_returns_none() {
    let a = weights();
    let n = a.len();
    let mut t = Segtree::from_iter(a.iter().map(|&x| Sum::new(x)));
    let total = t.ask(0, n - 1).v; // 3.6

    // the predicate is monotone along growing ranges as the library itself evaluates them
    let vals: Vec<f64> = (0..n).map(|r| t.ask(0, r).v).collect();
    assert!(vals.windows(2).all(|w| w[0] <= w[1]));
    // documented contract: smallest r such that f(ask(l, r)) == true
    let expected = (0..n).find(|&r| t.ask(0, r).v >= total);
    assert_eq!(expected, Some(n - 1));

    let seen_true = RefCell::new(false);
    let got = t.lower_bound(0, |it| {
        let ok = it.v >= total;
        if ok {
            *seen_true.borrow_mut() = true;
        }
        ok
    });
    // the predicate has been shown a satisfying aggregate (of [0, n-1]) during the call ...
    assert!(*seen_true.borrow());
    // ... yet the search answers "no such index"
    assert_eq!(got, expected, "lower_bound(0, sum >= total)");
}

#[test]
fn backward_search_for_the_total_weight_returns_none() {
    let a = weights();
    let n = a.len();
    let mut t: Segtree<SumAdd<f64>, f64> = Segtree::from_iter(a.iter().map(|&x| SumAdd::new(x)));
    let total = t.ask(0, n - 1).v;
    let expected = (0..n).rev().find(|&l| t.ask(l, n - 1).v >= total);
    assert_eq!(expected, Some(0));
    assert_eq!(t.lower_bound_rev(n - 1, |it| it.v >= total), expected);
}

#[test]
fn forward_search_overshoots_by_one() {
    let a = weights();
    let n = a.len();
    let mut t = Segtree::from_iter(a.iter().map(|&x| Sum::new(x)));
    let th = t.ask(2, 5).v; // 1.8
    let expected = (2..n).find(|&r| t.ask(2, r).v >= th);
    assert_eq!(expected, Some(5));
    assert_eq!(t.lower_bound(2, |it| it.v >= th), expected);
}
