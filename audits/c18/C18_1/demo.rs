// abs() must return a value with a clear sign bit for every non-NaN input (IEEE 754 abs,
// same as f64::abs). The current f80::abs returns -0 for -0, which is observable through
// the public API: the f64 image has the sign bit set, and 1/abs(-0) is -inf instead of +inf.
use rlib_f80::*;

#[test]
fn abs_of_negative_zero_is_positive_zero() {
    f80_init();
    let nz = f80::from(-0.0f64);
    let a = nz.abs();
    // reference: f64::abs(-0.0) is +0.0
    assert_eq!((-0.0f64).abs().to_bits(), 0);
    assert_eq!(f64::from(a).to_bits(), 0, "abs(-0) kept the sign bit");
    let inv = f64::from(f80::from(1.0) / a);
    assert_eq!(inv, f64::INFINITY, "1/abs(-0) must be +inf");
}

#[test]
fn abs_of_negative_zero_from_arithmetic() {
    f80_init();
    // -0 produced by arithmetic inside the domain: (-0) * 5, 1 / -inf, (-0) + (-0)
    for z in [
        f80::from(-0.0) * f80::from(5.0),
        f80::from(1.0) / f80::from(f64::NEG_INFINITY),
        f80::from(-0.0) + f80::from(-0.0),
    ] {
        assert_eq!(f64::from(z).to_bits(), 1u64 << 63); // the input really is -0
        assert_eq!(f64::from(z.abs()).to_bits(), 0, "abs(-0) kept the sign bit");
    }
}

#[test]
fn abs_agrees_with_f64_abs_on_all_non_nan_boundary_values() {
    f80_init();
    for v in [0.0f64, 5e-324, f64::MIN_POSITIVE, 1.0, 1e300, f64::MAX, f64::INFINITY] {
        for s in [v, -v] {
            assert_eq!(f64::from(f80::from(s).abs()).to_bits(), s.abs().to_bits(), "abs({:e})", s);
        }
    }
}
