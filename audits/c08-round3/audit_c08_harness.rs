// scratch audit harness for C08 (removed after the audit; a copy is kept in AUDIT/)
use rlib_io::reader::Reader;
use std::io::Read;

const BUF: usize = 1 << 16;

// ---------- rng ----------
struct Rng(u64);
impl Rng {
    fn next(&mut self) -> u64 {
        self.0 ^= self.0 << 13;
        self.0 ^= self.0 >> 7;
        self.0 ^= self.0 << 17;
        self.0.wrapping_mul(0x2545F4914F6CDD1D)
    }
    fn below(&mut self, n: usize) -> usize {
        (self.next() % n as u64) as usize
    }
}

// ---------- source ----------
#[derive(Clone, Debug)]
enum Ev {
    Chunk(usize),
    Intr,
}

struct Src {
    data: Vec<u8>,
    pos: usize,
    sched: Vec<Ev>,
    si: usize,
    default_chunk: usize,
    scribble: bool,
    intr_at_eof: usize, // number of Interrupted delivered before each Ok(0)
    intr_left: usize,
    calls: usize,
}

impl Src {
    fn new(data: &[u8], sched: Vec<Ev>, default_chunk: usize) -> Self {
        Src { data: data.to_vec(), pos: 0, sched, si: 0, default_chunk, scribble: false, intr_at_eof: 0, intr_left: 0, calls: 0 }
    }
}

impl Read for Src {
    fn read(&mut self, buf: &mut [u8]) -> std::io::Result<usize> {
        self.calls += 1;
        assert!(!buf.is_empty(), "reader passed an empty buffer");
        let ev = if self.si < self.sched.len() {
            self.si += 1;
            self.sched[self.si - 1].clone()
        } else {
            Ev::Chunk(self.default_chunk)
        };
        if self.scribble {
            for (i, b) in buf.iter_mut().enumerate() {
                *b = [b'\n', b'-', b'7', b'\r', b' '][(i + self.calls) % 5];
            }
        }
        match ev {
            Ev::Intr => Err(std::io::Error::new(std::io::ErrorKind::Interrupted, "intr")),
            Ev::Chunk(n) => {
                if self.pos == self.data.len() {
                    if self.intr_left > 0 {
                        self.intr_left -= 1;
                        return Err(std::io::Error::new(std::io::ErrorKind::Interrupted, "intr"));
                    }
                    self.intr_left = self.intr_at_eof;
                    return Ok(0);
                }
                let n = n.max(1).min(buf.len()).min(self.data.len() - self.pos);
                buf[..n].copy_from_slice(&self.data[self.pos..self.pos + n]);
                self.pos += n;
                Ok(n)
            }
        }
    }
}

// ---------- script ----------
#[derive(Clone, Debug, PartialEq)]
enum Op {
    I8, I16, I32, I64, I128, Isize,
    U8, U16, U32, U64, U128, Usize,
    Str, Ch, Line, Eof, Lines,
    Tup2, // (String, char)
    VecCh(usize),
    VecStr(usize),
}

// reference model: pure function of bytes
struct Model<'a> {
    b: &'a [u8],
    p: usize,
}
fn ws(c: u8) -> bool {
    c.is_ascii_whitespace()
}
impl<'a> Model<'a> {
    fn skip(&mut self) {
        while self.p < self.b.len() && ws(self.b[self.p]) {
            self.p += 1;
        }
    }
    fn peek_token(&self) -> Option<&'a [u8]> {
        let mut p = self.p;
        while p < self.b.len() && ws(self.b[p]) {
            p += 1;
        }
        let s = p;
        while p < self.b.len() && !ws(self.b[p]) {
            p += 1;
        }
        if s == p { None } else { Some(&self.b[s..p]) }
    }
    fn token(&mut self) -> String {
        self.skip();
        let s = self.p;
        while self.p < self.b.len() && !ws(self.b[self.p]) {
            self.p += 1;
        }
        assert!(s < self.p);
        String::from_utf8(self.b[s..self.p].to_vec()).unwrap()
    }
    fn ch(&mut self) -> char {
        self.skip();
        let c = self.b[self.p];
        self.p += 1;
        c as char
    }
    fn line(&mut self) -> Option<String> {
        if self.p == self.b.len() {
            return None;
        }
        let mut r = Vec::new();
        while self.p < self.b.len() {
            let c = self.b[self.p];
            self.p += 1;
            if c == b'\r' && self.p < self.b.len() && self.b[self.p] == b'\n' {
                self.p += 1;
                break;
            }
            if c == b'\n' {
                break;
            }
            r.push(c);
        }
        Some(String::from_utf8(r).unwrap())
    }
    fn eof(&mut self) -> bool {
        self.skip();
        self.p == self.b.len()
    }
    fn run(&mut self, op: &Op) -> String {
        macro_rules! int {
            ($t:ty) => {{
                let t = self.token();
                format!("{:?}", t.parse::<$t>().unwrap())
            }};
        }
        match op {
            Op::I8 => int!(i8), Op::I16 => int!(i16), Op::I32 => int!(i32), Op::I64 => int!(i64),
            Op::I128 => int!(i128), Op::Isize => int!(isize),
            Op::U8 => int!(u8), Op::U16 => int!(u16), Op::U32 => int!(u32), Op::U64 => int!(u64),
            Op::U128 => int!(u128), Op::Usize => int!(usize),
            Op::Str => format!("{:?}", self.token()),
            Op::Ch => format!("{:?}", self.ch()),
            Op::Line => format!("{:?}", self.line()),
            Op::Eof => format!("{:?}", self.eof()),
            Op::Lines => {
                let mut v = vec![];
                while let Some(l) = self.line() {
                    v.push(l);
                }
                format!("{:?}", v)
            }
            Op::Tup2 => {
                let a = self.token();
                let b = self.ch();
                format!("{:?}", (a, b))
            }
            Op::VecCh(n) => format!("{:?}", (0..*n).map(|_| self.ch()).collect::<Vec<_>>()),
            Op::VecStr(n) => format!("{:?}", (0..*n).map(|_| self.token()).collect::<Vec<_>>()),
        }
    }
}

fn run_reader(r: &mut Reader, op: &Op) -> String {
    match op {
        Op::I8 => format!("{:?}", r.read::<i8>()),
        Op::I16 => format!("{:?}", r.read::<i16>()),
        Op::I32 => format!("{:?}", r.read::<i32>()),
        Op::I64 => format!("{:?}", r.read::<i64>()),
        Op::I128 => format!("{:?}", r.read::<i128>()),
        Op::Isize => format!("{:?}", r.read::<isize>()),
        Op::U8 => format!("{:?}", r.read::<u8>()),
        Op::U16 => format!("{:?}", r.read::<u16>()),
        Op::U32 => format!("{:?}", r.read::<u32>()),
        Op::U64 => format!("{:?}", r.read::<u64>()),
        Op::U128 => format!("{:?}", r.read::<u128>()),
        Op::Usize => format!("{:?}", r.read::<usize>()),
        Op::Str => format!("{:?}", r.read::<String>()),
        Op::Ch => format!("{:?}", r.read::<char>()),
        Op::Line => format!("{:?}", r.read_line()),
        Op::Eof => format!("{:?}", r.is_eof()),
        Op::Lines => format!("{:?}", r.read_lines()),
        Op::Tup2 => format!("{:?}", r.read::<(String, char)>()),
        Op::VecCh(n) => format!("{:?}", r.read_vec::<char>(*n)),
        Op::VecStr(n) => format!("{:?}", r.read_vec::<String>(*n)),
    }
}

fn expected(data: &[u8], script: &[Op]) -> Vec<String> {
    let mut m = Model { b: data, p: 0 };
    script.iter().map(|op| m.run(op)).collect()
}

fn actual(src: Src, script: &[Op]) -> Result<Vec<String>, String> {
    let script = script.to_vec();
    std::panic::catch_unwind(std::panic::AssertUnwindSafe(move || {
        let mut r = Reader::new(Box::new(src));
        script.iter().map(|op| run_reader(&mut r, op)).collect::<Vec<_>>()
    }))
    .map_err(|e| {
        if let Some(s) = e.downcast_ref::<String>() { s.clone() } else if let Some(s) = e.downcast_ref::<&str>() { s.to_string() } else { "panic".into() }
    })
}

fn check(data: &[u8], script: &[Op], src: Src, what: &str) {
    let exp = expected(data, script);
    let sched = src.sched.clone();
    let act = actual(src, script);
    if act.as_ref().ok() != Some(&exp) {
        let show = |d: &[u8]| if d.len() > 200 { format!("<{} bytes>", d.len()) } else { format!("{:?}", String::from_utf8_lossy(d)) };
        let sch = if sched.len() > 60 { format!("<{} events>", sched.len()) } else { format!("{:?}", sched) };
        let e: Vec<String> = exp.iter().map(|s| if s.len() > 200 { format!("<{}>", s.len()) } else { s.clone() }).collect();
        let a = act.map(|v| v.iter().map(|s| if s.len() > 200 { format!("<{}>", s.len()) } else { s.clone() }).collect::<Vec<_>>());
        panic!("MISMATCH [{}]\n data={}\n script={:?}\n sched={}\n exp={:?}\n act={:?}", what, show(data), script, sch, e, a);
    }
}

// ---------- generators ----------
fn int_ops_for(tok: &[u8]) -> Vec<Op> {
    let s = std::str::from_utf8(tok).unwrap();
    let mut v = vec![];
    if s.starts_with('+') || s.is_empty() {
        return v;
    }
    let digits = s.strip_prefix('-').unwrap_or(s);
    if digits.is_empty() || !digits.bytes().all(|c| c.is_ascii_digit()) {
        return v;
    }
    macro_rules! t {
        ($t:ty, $op:expr) => {
            if s.parse::<$t>().is_ok() {
                v.push($op);
            }
        };
    }
    t!(i8, Op::I8); t!(i16, Op::I16); t!(i32, Op::I32); t!(i64, Op::I64); t!(i128, Op::I128); t!(isize, Op::Isize);
    if !s.starts_with('-') {
        t!(u8, Op::U8); t!(u16, Op::U16); t!(u32, Op::U32); t!(u64, Op::U64); t!(u128, Op::U128); t!(usize, Op::Usize);
    }
    v
}

const EXTREMES: &[&str] = &[
    "-128", "127", "255", "-32768", "32767", "65535", "-2147483648", "2147483647", "4294967295",
    "-9223372036854775808", "9223372036854775807", "18446744073709551615",
    "-170141183460469231731687303715884105728", "170141183460469231731687303715884105727",
    "340282366920938463463374607431768211455", "0", "-0", "-1", "000123", "-007",
];

fn gen_input(rng: &mut Rng, pieces: usize, short: bool) -> Vec<u8> {
    let mut d = Vec::new();
    for _ in 0..pieces {
        match rng.below(12) {
            0 => d.push(b' '),
            1 => d.push(b'\n'),
            2 => d.extend_from_slice(b"\r\n"),
            3 => d.push(b'\r'),
            4 => d.push(b'\t'),
            5 | 6 => {
                if short {
                    let c = [&b"-1"[..], b"7", b"-12", b"0", b"-0", b"34"][rng.below(6)];
                    d.extend_from_slice(c);
                } else {
                    d.extend_from_slice(EXTREMES[rng.below(EXTREMES.len())].as_bytes());
                }
            }
            7 => {
                let l = 1 + rng.below(if short { 2 } else { 12 });
                for _ in 0..l {
                    d.push(b"abz-+.#09"[rng.below(9)]);
                }
            }
            8 => d.push(b'-'),
            9 => d.push(0x0c),
            10 => d.extend_from_slice(b"\n\n"),
            _ => d.extend_from_slice(b" \r"),
        }
    }
    d
}

fn gen_script(rng: &mut Rng, data: &[u8], max_ops: usize) -> Vec<Op> {
    let mut m = Model { b: data, p: 0 };
    let mut script = vec![];
    for _ in 0..max_ops {
        let mut cands = vec![Op::Line, Op::Eof, Op::Line];
        if let Some(tok) = m.peek_token() {
            let ints = int_ops_for(tok);
            for _ in 0..3 {
                cands.extend(ints.iter().cloned());
            }
            cands.push(Op::Str);
            cands.push(Op::Ch);
            // tuple (String, char) needs a second token
            let mut m2 = Model { b: data, p: m.p };
            m2.token();
            if m2.peek_token().is_some() {
                cands.push(Op::Tup2);
                cands.push(Op::VecStr(2));
            }
            // count non-ws bytes remaining
            let rest = data[m.p..].iter().filter(|c| !ws(**c)).count();
            if rest >= 3 {
                cands.push(Op::VecCh(3));
            }
        }
        if rng.below(25) == 0 {
            cands.push(Op::Lines);
        }
        let op = cands[rng.below(cands.len())].clone();
        m.run(&op);
        script.push(op);
    }
    script
}

fn compositions(n: usize) -> Vec<Vec<usize>> {
    // all ways to split n bytes into chunks
    if n == 0 {
        return vec![vec![]];
    }
    let mut out = vec![];
    for mask in 0u32..(1 << (n - 1)) {
        let mut v = vec![];
        let mut cur = 1;
        for i in 0..n - 1 {
            if mask >> i & 1 == 1 {
                v.push(cur);
                cur = 1;
            } else {
                cur += 1;
            }
        }
        v.push(cur);
        out.push(v);
    }
    out
}

// F1: exhaustive chunkings of short inputs with random mixed scripts, Interrupted before every read
#[test]
fn f01_exhaustive_short() {
    let mut rng = Rng(0x1234567);
    let mut cases = 0usize;
    for it in 0..3000 {
        let data = loop {
            let k = 1 + rng.below(7);
            let d = gen_input(&mut rng, k, true);
            if d.len() <= 11 {
                break d;
            }
        };
        let k = 2 + rng.below(8);
        let script = gen_script(&mut rng, &data, k);
        for comp in compositions(data.len()) {
            let base: Vec<Ev> = comp.iter().map(|&n| Ev::Chunk(n)).collect();
            check(&data, &script, Src::new(&data, base.clone(), 1), "f01 plain");
            cases += 1;
            if it % 4 == 0 {
                // interrupt at every position, including before the first read and before the eof read
                for pos in 0..=base.len() {
                    let mut s = base.clone();
                    s.insert(pos, Ev::Intr);
                    if pos % 2 == 0 {
                        s.insert(pos, Ev::Intr);
                    }
                    let mut src = Src::new(&data, s, 1);
                    src.intr_at_eof = pos % 3;
                    src.intr_left = pos % 3;
                    check(&data, &script, src, "f01 intr");
                    cases += 1;
                }
            }
        }
    }
    eprintln!("f01 cases {}", cases);
}

// F2: the same with a source that scribbles over the whole buffer on every call (allowed: buffer beyond n is unspecified)
#[test]
fn f02_scribbling_source() {
    let mut rng = Rng(0x777);
    for _ in 0..1500 {
        let data = loop {
            let k = 1 + rng.below(7);
            let d = gen_input(&mut rng, k, true);
            if d.len() <= 9 {
                break d;
            }
        };
        let k = 2 + rng.below(10);
        let script = gen_script(&mut rng, &data, k);
        for comp in compositions(data.len()) {
            let mut s: Vec<Ev> = vec![];
            for &n in &comp {
                if rng.below(3) == 0 {
                    s.push(Ev::Intr);
                }
                s.push(Ev::Chunk(n));
            }
            s.push(Ev::Intr);
            let mut src = Src::new(&data, s, 1);
            src.scribble = true;
            check(&data, &script, src, "f02 scribble");
        }
    }
}

fn boundary_scheds(len: usize, rng: &mut Rng) -> Vec<(Vec<Ev>, usize)> {
    let mut v: Vec<(Vec<Ev>, usize)> = vec![
        (vec![], 1),
        (vec![], 2),
        (vec![], 7),
        (vec![], BUF - 1),
        (vec![], BUF),
        (vec![], BUF + 1),
        (vec![], usize::MAX),
        (vec![Ev::Intr], BUF),
        (vec![Ev::Chunk(1)], BUF),
        (vec![Ev::Chunk(BUF - 1)], BUF),
        (vec![Ev::Chunk(BUF - 1), Ev::Intr, Ev::Chunk(1), Ev::Intr, Ev::Intr, Ev::Chunk(1)], BUF),
        (vec![Ev::Chunk(BUF), Ev::Chunk(1), Ev::Chunk(BUF - 1), Ev::Chunk(2)], 3),
    ];
    for _ in 0..6 {
        let mut s = vec![];
        let mut tot = 0;
        while tot < len {
            let n = match rng.below(8) {
                0 => 1,
                1 => 2,
                2 => 1 + rng.below(10),
                3 => BUF,
                4 => BUF - 1 - rng.below(3),
                5 => 1 + rng.below(BUF),
                6 => 1 + rng.below(300),
                _ => 4096,
            };
            if rng.below(5) == 0 {
                s.push(Ev::Intr);
            }
            s.push(Ev::Chunk(n));
            tot += n;
        }
        s.push(Ev::Intr);
        v.push((s, 1 + rng.below(BUF)));
    }
    v
}

// F3: CR / CRLF / lone CR placed exactly at the buffer end, followed by EOF or by more data, after token reads
#[test]
fn f03_cr_at_buffer_end() {
    let mut rng = Rng(99);
    let tails: &[&[u8]] = &[b"\r", b"\r\n", b"\r\r\n", b"\r\n\r", b"\rx", b"\r\nx", b"\n\r", b"x\r", b"\r \r\n", b"\r\n\r\n", b"\r\r", b""];
    for off in [BUF - 3, BUF - 2, BUF - 1, BUF, BUF + 1, 2 * BUF - 1, 2 * BUF] {
        for tail in tails {
            for head in 0..3 {
                // head: lines of tokens, so the script mixes token reads then line reads
                let mut data = Vec::new();
                match head {
                    0 => data.extend_from_slice(b"12 -7 abc"),
                    1 => data.extend_from_slice(b"x\r\n5 "),
                    _ => {}
                }
                while data.len() < off {
                    data.push(b"ab 1\n"[data.len() % 5]);
                }
                data.truncate(off);
                // make sure the byte before the tail is not whitespace-sensitive: keep as is (random-ish)
                data.extend_from_slice(tail);
                let scripts: Vec<Vec<Op>> = vec![
                    vec![Op::Lines, Op::Eof, Op::Line],
                    vec![Op::Str, Op::Line, Op::Lines, Op::Line, Op::Eof],
                    vec![Op::Str, Op::Ch, Op::Line, Op::Line, Op::Lines],
                ];
                for script in &scripts {
                    for (s, dc) in boundary_scheds(data.len(), &mut rng) {
                        check(&data, script, Src::new(&data, s, dc), "f03");
                    }
                    // split exactly around the tail
                    for k in 0..=tail.len() {
                        let s = vec![Ev::Chunk(off + k), Ev::Intr];
                        if off + k <= BUF {
                            check(&data, script, Src::new(&data, s, 1), "f03 split");
                        }
                    }
                }
            }
        }
    }
}

// F4: is_eof after long trailing whitespace, pathological chunking, repeated Ok(0), repeated eof tests
#[test]
fn f04_eof_after_trailing_ws() {
    let mut rng = Rng(5);
    for wslen in [0usize, 1, 2, BUF - 1, BUF, BUF + 1, 3 * BUF + 5] {
        for lead in [&b""[..], b"1", b"1 2\r"] {
            let mut data = lead.to_vec();
            for i in 0..wslen {
                data.push(b" \n\r\t\x0c"[i % 5]);
            }
            let mut script = vec![];
            if !lead.is_empty() {
                script.push(Op::U8);
            }
            script.extend([Op::Eof, Op::Eof, Op::Line, Op::Eof, Op::Lines, Op::Line, Op::Eof]);
            let script2 = vec![Op::Eof, Op::Line, Op::Eof];
            let script3 = vec![Op::Line, Op::Eof, Op::Eof, Op::Line];
            for (s, dc) in boundary_scheds(data.len(), &mut rng) {
                check(&data, &script, Src::new(&data, s.clone(), dc), "f04a");
                if lead.len() != 1 || wslen > 0 {
                    // script2 starts with Eof: fine for every input
                }
                check(&data, &script2, Src::new(&data, s.clone(), dc), "f04b");
                check(&data, &script3, Src::new(&data, s, dc), "f04c");
            }
        }
    }
}

// F5: tokens longer than the buffer
#[test]
fn f05_long_tokens() {
    let mut rng = Rng(17);
    for len in [BUF - 1, BUF, BUF + 1, 2 * BUF, 3 * BUF + 17, 200_000] {
        let mut data = b"  ".to_vec();
        for i in 0..len {
            data.push(b'a' + (i % 26) as u8);
        }
        data.extend_from_slice(b"\r\n");
        for i in 0..len {
            data.push(b'!' + (i % 90) as u8);
        }
        // unterminated
        let scripts = vec![
            vec![Op::Str, Op::Str, Op::Eof],
            vec![Op::Ch, Op::Str, Op::Line, Op::Line, Op::Line],
            vec![Op::Line, Op::Line, Op::Line],
            vec![Op::VecCh(5), Op::Tup2, Op::Str, Op::Eof],
        ];
        for script in &scripts {
            for (s, dc) in boundary_scheds(data.len(), &mut rng) {
                if dc == 1 && len > 100_000 {
                    continue;
                }
                check(&data, script, Src::new(&data, s, dc), "f05");
            }
        }
    }
}

// F6: extreme integers of every width split at every position, also straddling the buffer boundary at every offset
#[test]
fn f06_extreme_ints() {
    let cases: Vec<(&str, Op)> = vec![
        ("-128", Op::I8), ("127", Op::I8), ("255", Op::U8),
        ("-32768", Op::I16), ("32767", Op::I16), ("65535", Op::U16),
        ("-2147483648", Op::I32), ("2147483647", Op::I32), ("4294967295", Op::U32),
        ("-9223372036854775808", Op::I64), ("9223372036854775807", Op::I64), ("18446744073709551615", Op::U64),
        ("-9223372036854775808", Op::Isize), ("9223372036854775807", Op::Isize), ("18446744073709551615", Op::Usize),
        ("-170141183460469231731687303715884105728", Op::I128), ("170141183460469231731687303715884105727", Op::I128),
        ("340282366920938463463374607431768211455", Op::U128),
        ("-0", Op::I8), ("-000000000000000000000000000000000000000000000000000128", Op::I8),
        ("0000000000000000000000000000000000000000000000000000000000255", Op::U8),
    ];
    for (tok, op) in &cases {
        for term in [&b""[..], b"\n", b"\r\n", b" "] {
            // short: split at every position into two / three chunks, with interrupts
            let mut data = b" ".to_vec();
            data.extend_from_slice(tok.as_bytes());
            data.extend_from_slice(term);
            let script = vec![op.clone(), Op::Eof, Op::Line];
            for i in 1..data.len() {
                for j in i..=data.len() {
                    let s = vec![Ev::Intr, Ev::Chunk(i), Ev::Intr, Ev::Chunk((j - i).max(1)), Ev::Intr];
                    check(&data, &script, Src::new(&data, s, 1), "f06 short");
                }
            }
            check(&data, &script, Src::new(&data, vec![], 1), "f06 1byte");
            // straddle the buffer boundary at every offset
            for k in 0..=tok.len() + 1 {
                let mut data = vec![];
                let pad = BUF - k.min(BUF);
                while data.len() + 2 <= pad {
                    data.extend_from_slice(b"7 ");
                }
                while data.len() < pad {
                    data.push(b' ');
                }
                let n7 = data.iter().filter(|c| **c == b'7').count();
                data.extend_from_slice(tok.as_bytes());
                data.extend_from_slice(term);
                let mut script = vec![Op::U8; n7];
                script.push(op.clone());
                script.push(Op::Eof);
                for dc in [BUF, BUF - 1, 1usize << 20] {
                    check(&data, &script, Src::new(&data, vec![], dc), "f06 straddle");
                    check(&data, &script, Src::new(&data, vec![Ev::Intr, Ev::Chunk(BUF), Ev::Intr, Ev::Chunk(1), Ev::Intr], dc), "f06 straddle2");
                }
            }
        }
    }
}

// F7: Interrupted storms: thousands in a row at the first read, in the middle, at the last (eof) read
#[test]
fn f07_interrupt_storms() {
    let data = b"12 ab\r\n-5\rx\r".to_vec();
    let script = vec![Op::U8, Op::Line, Op::I8, Op::Ch, Op::Line, Op::Eof, Op::Line];
    for at in 0..=data.len() {
        let mut s = vec![];
        for i in 0..data.len() {
            if i == at {
                s.extend(std::iter::repeat(Ev::Intr).take(5000));
            }
            s.push(Ev::Chunk(1));
        }
        if at == data.len() {
            s.extend(std::iter::repeat(Ev::Intr).take(5000));
        }
        let mut src = Src::new(&data, s, 1);
        src.intr_at_eof = 3;
        src.intr_left = 3;
        check(&data, &script, src, "f07");
    }
}

// F8: long random inputs, random scripts, random + boundary schedules
#[test]
fn f08_long_random() {
    let mut rng = Rng(0xabcdef);
    for _ in 0..40 {
        let pieces = 20_000 + rng.below(40_000);
        let data = gen_input(&mut rng, pieces, false);
        let script = gen_script(&mut rng, &data, 60_000);
        for (s, dc) in boundary_scheds(data.len(), &mut rng) {
            check(&data, &script, Src::new(&data, s, dc), "f08");
        }
    }
}

// F9: read_vec of tuples / chars / ints at scale with random chunking
#[test]
fn f09_read_vec_scale() {
    let mut rng = Rng(31337);
    let n = 300_000usize;
    let mut data = Vec::new();
    let mut exp: Vec<(i64, char, String, u128)> = vec![];
    for i in 0..n {
        let a = rng.next() as i64;
        let c = (b'!' + (rng.below(90)) as u8) as char;
        let s: String = (0..1 + rng.below(5)).map(|_| (b'a' + rng.below(26) as u8) as char).collect();
        let u = ((rng.next() as u128) << 64) | rng.next() as u128;
        data.extend_from_slice(format!("{}{}{} {}{}{}", a, [" ", "\n", "\r\n", "\t "][i % 4], c, s, ["\r\n", " ", "\n"][i % 3], u).as_bytes());
        data.extend_from_slice([&b"\n"[..], b"\r\n", b" ", b"  \r\n\r\n"][rng.below(4)]);
        exp.push((a, c, s, u));
    }
    for (s, dc) in boundary_scheds(data.len(), &mut rng) {
        if dc < 3 {
            continue;
        }
        let mut r = Reader::new(Box::new(Src::new(&data, s, dc)));
        let got = r.read_vec::<(i64, char, String, u128)>(n);
        assert!(got == exp, "f09 mismatch");
        assert!(r.is_eof());
        assert_eq!(r.read_line(), None);
    }
}

// F10: real std adapters as the source: Chain of many tiny cursors, BufReader with tiny capacity, Take, os pipe fed by a thread
#[test]
fn f10_std_sources() {
    let mut rng = Rng(4242);
    let data = gen_input(&mut rng, 50_000, false);
    let script = gen_script(&mut rng, &data, 100_000);
    let exp = expected(&data, &script);
    let run = |src: Box<dyn Read>| -> Vec<String> {
        let mut r = Reader::new(src);
        script.iter().map(|op| run_reader(&mut r, op)).collect()
    };
    // chain of cursors of varied size, including empty ones
    let mut chained: Box<dyn Read> = Box::new(std::io::empty());
    let mut p = 0;
    let mut parts = vec![];
    while p < data.len() {
        let n = [0usize, 1, 2, 5, 70000, 65536, 65535][rng.below(7)].min(data.len() - p);
        parts.push(data[p..p + n].to_vec());
        p += n;
    }
    for part in parts.into_iter().rev() {
        chained = Box::new(std::io::Cursor::new(part).chain(chained));
    }
    assert!(run(chained) == exp, "chain");
    assert!(run(Box::new(std::io::BufReader::with_capacity(3, std::io::Cursor::new(data.clone())))) == exp, "bufreader3");
    assert!(run(Box::new(std::io::BufReader::with_capacity(BUF + 1, std::io::Cursor::new(data.clone())))) == exp, "bufreader+1");
    assert!(run(Box::new(std::io::Cursor::new(data.clone()).take(data.len() as u64))) == exp, "take");
    assert!(run(Box::new(&data[..])) == exp, "slice");
    // os pipe with a writer thread that writes in odd sizes
    let (rd, mut wr) = std::io::pipe().unwrap();
    let d2 = data.clone();
    let h = std::thread::spawn(move || {
        use std::io::Write;
        let mut p = 0;
        let mut k = 1;
        while p < d2.len() {
            let n = k.min(d2.len() - p);
            wr.write_all(&d2[p..p + n]).unwrap();
            p += n;
            k = k * 3 % 7919 + 1;
            if k % 5 == 0 {
                std::thread::yield_now();
            }
        }
    });
    assert!(run(Box::new(rd)) == exp, "pipe");
    h.join().unwrap();
}

// F11: read_lines to EOF on long mixed terminators; then state after EOF is stable
#[test]
fn f11_read_lines_long() {
    let mut rng = Rng(2024);
    for round in 0..6 {
        let mut data = vec![];
        let target = [BUF - 1, BUF, BUF + 1, 2 * BUF, 5 * BUF + 3, 100][round];
        while data.len() < target {
            match rng.below(8) {
                0 => data.extend_from_slice(b"\r\n"),
                1 => data.push(b'\n'),
                2 => data.push(b'\r'),
                3 => data.extend_from_slice(b"\r\r\n"),
                4 => data.extend_from_slice(b"\n\r"),
                _ => {
                    for _ in 0..rng.below(30) {
                        data.push(b" ab1-\t"[rng.below(6)]);
                    }
                }
            }
        }
        for cut in 0..4 {
            let d = &data[..data.len() - cut];
            let scripts = vec![
                vec![Op::Lines, Op::Line, Op::Eof, Op::Lines, Op::Eof],
                vec![Op::Str, Op::Line, Op::Ch, Op::Line, Op::Eof, Op::Line, Op::Lines, Op::Lines],
            ];
            for script in &scripts {
                for (s, dc) in boundary_scheds(d.len(), &mut rng) {
                    check(d, script, Src::new(d, s, dc), "f11");
                }
            }
        }
    }
}

// F12: two readers over the same bytes with different deliveries stay in lock step through a long interleaved script
//      (checks state carried between calls rather than only final values); inputs include '-' split from digits at the boundary
#[test]
fn f12_minus_at_boundary() {
    for k in 0..4usize {
        // '-' is the last byte of the first 64 KiB, digits follow in the next read
        let mut data = vec![b' '; BUF - 1 - k];
        data.extend_from_slice(b"-");
        data.extend_from_slice(b"123\r\n-\r\n-45");
        let script = vec![Op::I32, Op::Line, Op::Line, Op::I8, Op::Eof];
        let script_b = vec![Op::Ch, Op::U8, Op::Line, Op::Str, Op::Ch, Op::U8, Op::Line];
        for dc in [BUF, BUF - 1, 1, 3, 1 << 20] {
            check(&data, &script, Src::new(&data, vec![], dc), "f12a");
            check(&data, &script_b, Src::new(&data, vec![], dc), "f12b");
            check(&data, &script, Src::new(&data, vec![Ev::Chunk(BUF - 1 - k), Ev::Intr, Ev::Chunk(1), Ev::Intr], dc), "f12c");
        }
    }
}

// F13: leading '+' (outside the domain: not a valid token) — only check that the result does not depend on delivery (release only)
#[test]
#[cfg(not(debug_assertions))]
fn f13_plus_sign_release_only() {
    let data = b"+5 +17\n".to_vec();
    let mut results = std::collections::BTreeSet::new();
    for comp in compositions(data.len()) {
        let s: Vec<Ev> = comp.iter().map(|&n| Ev::Chunk(n)).collect();
        let mut r = Reader::new(Box::new(Src::new(&data, s, 1)));
        let a = r.read::<i32>();
        let b = r.read::<u64>();
        results.insert((a, b, r.is_eof()));
    }
    eprintln!("f13 results {:?}", results);
    assert_eq!(results.len(), 1);
}

// F14: several readers alive at once / reader moved after partial use (the buffer lives inline in the struct)
#[test]
fn f14_moved_reader() {
    let data = b"1 2 3\r\nabc\r\n".to_vec();
    let mut r = Reader::new(Box::new(Src::new(&data, vec![], 1)));
    assert_eq!(r.read::<u8>(), 1);
    let mut boxed = Box::new(r);
    assert_eq!(boxed.read::<u8>(), 2);
    let mut r2 = *boxed;
    assert_eq!(r2.read::<u8>(), 3);
    let v = vec![r2];
    let mut r3 = v.into_iter().next().unwrap();
    assert_eq!(r3.read_line(), Some("".to_string()));
    assert_eq!(r3.read_line(), Some("abc".to_string()));
    assert_eq!(r3.read_line(), None);
    assert!(r3.is_eof());
}

// F15: the full 7-bit alphabet (NUL, VT, DEL, control separators 0x1c-0x1f ...) in string/char/line/eof scripts
#[test]
fn f15_full_ascii_alphabet() {
    let mut rng = Rng(0xfeed);
    let gen = |rng: &mut Rng, n: usize| -> Vec<u8> {
        (0..n)
            .map(|_| match rng.below(6) {
                0 => b" \n\r\t\x0c"[rng.below(5)],
                1 => [0u8, 0x0b, 0x1c, 0x1d, 0x1e, 0x1f, 0x7f, 0x85 & 0x7f][rng.below(8)],
                _ => rng.below(128) as u8,
            })
            .collect()
    };
    let gen_script = |rng: &mut Rng, data: &[u8], n: usize| -> Vec<Op> {
        let mut m = Model { b: data, p: 0 };
        let mut s = vec![];
        for _ in 0..n {
            let mut c = vec![Op::Line, Op::Eof];
            if m.peek_token().is_some() {
                c.extend([Op::Str, Op::Ch, Op::Ch]);
            }
            let op = c[rng.below(c.len())].clone();
            m.run(&op);
            s.push(op);
        }
        s
    };
    for _ in 0..2000 {
        let n = 1 + rng.below(10);
        let data = gen(&mut rng, n);
        let script = gen_script(&mut rng, &data, 8);
        for comp in compositions(data.len()) {
            let mut s: Vec<Ev> = comp.iter().map(|&n| Ev::Chunk(n)).collect();
            s.insert(rng.below(s.len() + 1), Ev::Intr);
            let mut src = Src::new(&data, s, 1);
            src.scribble = rng.below(2) == 0;
            check(&data, &script, src, "f15 short");
        }
    }
    for _ in 0..10 {
        let data = gen(&mut rng, 3 * BUF + 11);
        let script = gen_script(&mut rng, &data, 100_000);
        for (s, dc) in boundary_scheds(data.len(), &mut rng) {
            check(&data, &script, Src::new(&data, s, dc), "f15 long");
        }
    }
}

// F16: the real entry point (make_io! over the process stdin) fed through an OS pipe in odd-sized writes with pauses
fn f16_case() -> (Vec<u8>, Vec<Op>) {
    let mut rng = Rng(0x16161616);
    let data = gen_input(&mut rng, 60_000, false);
    let script = gen_script(&mut rng, &data, 120_000);
    (data, script)
}

#[test]
fn f16_child() {
    if std::env::var("AUDIT_C08_CHILD").is_err() {
        return;
    }
    let (_, script) = f16_case();
    #[allow(unused_imports)]
    use rlib_io::make_output_macro_;
    rlib_io::make_io!(reader, writer);
    let res: Vec<String> = script.iter().map(|op| run_reader(&mut reader, op)).collect();
    let mut h = 0xcbf29ce484222325u64;
    for r in &res {
        for b in r.bytes().chain(std::iter::once(0xff)) {
            h = (h ^ b as u64).wrapping_mul(0x100000001b3);
        }
    }
    println!("\nAUDITHASH {:016x} {}", h, res.len());
}

#[test]
fn f16_stdin_pipe() {
    use std::io::Write;
    use std::process::{Command, Stdio};
    let (data, script) = f16_case();
    let exp = expected(&data, &script);
    let mut h = 0xcbf29ce484222325u64;
    for r in &exp {
        for b in r.bytes().chain(std::iter::once(0xff)) {
            h = (h ^ b as u64).wrapping_mul(0x100000001b3);
        }
    }
    let want = format!("AUDITHASH {:016x} {}", h, exp.len());
    for mode in 0..4 {
        let mut child = Command::new(std::env::current_exe().unwrap())
            .args(["f16_child", "--exact", "--nocapture", "--test-threads=1"])
            .env("AUDIT_C08_CHILD", "1")
            .stdin(Stdio::piped())
            .stdout(Stdio::piped())
            .stderr(Stdio::null())
            .spawn()
            .unwrap();
        let mut stdin = child.stdin.take().unwrap();
        let d = data.clone();
        let t = std::thread::spawn(move || {
            let mut p = 0;
            let mut k = 1usize;
            let mut i = 0;
            while p < d.len() {
                let n = match mode {
                    0 => d.len(),
                    1 => 4096,
                    2 => k,
                    _ => [BUF - 1, 1, BUF, 1, 1, 8191, 8192, 8193][i % 8],
                }
                .min(d.len() - p);
                stdin.write_all(&d[p..p + n]).unwrap();
                stdin.flush().unwrap();
                p += n;
                i += 1;
                k = k * 5 % 9973 + 1;
                if mode >= 2 && i % 7 == 0 {
                    std::thread::sleep(std::time::Duration::from_micros(300));
                }
            }
            drop(stdin);
        });
        let out = child.wait_with_output().unwrap();
        t.join().unwrap();
        let so = String::from_utf8_lossy(&out.stdout).to_string();
        assert!(so.contains(&want), "mode {} want {} got tail {:?}", mode, want, &so[so.len().saturating_sub(200)..]);
    }
}
