// Crate: rlib_tensor  (copy to rlib/tensor/tests/c19_overflow_alias.rs)
// Run:   cargo test --offline --release -p rlib_tensor --test c19_overflow_alias
// NEEDS --release (in a debug build the wrapped product panics with "attempt to multiply with
// overflow" inside from_vec/new, so construction is rejected and both tests pass).
//
// OUTSIDE the quantifier of C19 (extents up to 5); inside the statement's "every shape with
// positive extents". See note.md.
use rlib_tensor::Tensor;
use std::panic::{catch_unwind, AssertUnwindSafe};

const BIG: usize = (1usize << (usize::BITS - 1)) + 1; // 2^63 + 1 on 64-bit

#[test]
fn mismatched_length_is_rejected_at_construction() {
    // true element count of the shape is (2^63+1)*2 = 2^64+2, the vector holds 2 elements
    let r = catch_unwind(AssertUnwindSafe(|| Tensor::<u8, 2>::from_vec([BIG, 2], vec![10, 20])));
    assert!(r.is_err(), "from_vec accepted a 2-element vector for shape [2^63+1, 2]");
    let r = catch_unwind(AssertUnwindSafe(|| Tensor::<u8, 2>::from_slice([BIG, 2], &[10, 20])));
    assert!(r.is_err(), "from_slice accepted a 2-element slice for shape [2^63+1, 2]");
    let r = catch_unwind(AssertUnwindSafe(|| Tensor::<u8, 2>::new([BIG, 2], 0)));
    assert!(r.is_err(), "new built a 2-element tensor for shape [2^63+1, 2]");
}

#[test]
fn distinct_valid_indices_do_not_alias() {
    let t = match catch_unwind(AssertUnwindSafe(|| Tensor::<u8, 2>::from_vec([BIG, 2], vec![10, 20]))) {
        Ok(t) => t,
        Err(_) => return, // rejected at construction: fine
    };
    let mut t = t;
    // both indices are inside every per-dimension bound (2^63 < 2^63+1, 0 < 2)
    let a = [0usize, 0];
    let b = [BIG - 1, 0];
    let before = t[a];
    t[b] = 99; // must panic or write some element other than t[a]
    assert_eq!(t[a], before, "t[[2^63,0]] = 99 overwrote t[[0,0]]: offset 2*2^63 wrapped to 0");
}
