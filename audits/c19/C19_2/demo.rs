// Crate: rlib_tensor  (copy to rlib/tensor/tests/c19_non_ascii_roundtrip.rs)
// Run:   cargo test --offline -p rlib_tensor --test c19_non_ascii_roundtrip
// Fails in debug and in --release.
//
// Tensor<String, D> written with Writer and read back with Tensor::read (same shape) is not equal
// when an element contains a non-ASCII character (no whitespace involved). Root cause is in rlib_io.
use rlib_io::reader::Reader;
use rlib_io::writer::Writer;
use rlib_tensor::Tensor;

#[test]
fn non_ascii_string_elements_round_trip() {
    let t = Tensor::<String, 2>::from_vec(
        [2, 2],
        vec!["abc".to_string(), "é".to_string(), "日本".to_string(), "x".to_string()],
    );
    let mut bytes = Vec::new();
    {
        let mut w = Writer::new(Box::new(&mut bytes));
        w.write(&t);
    }
    assert_eq!(String::from_utf8(bytes.clone()).unwrap(), "abc é\n日本 x"); // the text itself is fine
    let mut r = Reader::new(Box::new(std::io::Cursor::new(bytes)));
    let back = Tensor::<String, 2>::read([2, 2], &mut r);
    assert!(back == t, "read back {:?}, wrote {:?}", back, t);
}
