// C03_1: every thread's priority generator restarts from the same constant seed, so nodes created on
// different threads get IDENTICAL priorities. A treap assembled from such nodes is a chain (depth == n),
// and the recursive split/merge/collect/drop overflow the stack and abort the process for a few thousand
// elements.
//
// Run:  cp FOUND/C03_1/demo.rs rlib/treap/tests/found_demo.rs
//       cargo test --offline -p rlib_treap --test found_demo
// The first test fails cleanly (assertion). The second one is #[ignore]d because on the current library it
// kills the test process (stack overflow -> SIGABRT); run it with `-- --ignored` to see the abort.

use rlib_treap::*;

#[derive(Debug)]
struct It {
    x: u32,
    sz: usize,
}
impl It {
    fn new(x: u32) -> Self {
        It { x, sz: 1 }
    }
}
impl TreapItem for It {
    fn update(&mut self, l: Option<&Self>, r: Option<&Self>) {
        self.sz = 1 + l.map(|i| i.sz).unwrap_or(0) + r.map(|i| i.sz).unwrap_or(0);
    }
}
impl TreapItemSized for It {
    fn size(&self) -> usize {
        self.sz
    }
}

// iterative helpers, so that the demo itself never recurses
fn depth<T>(root: &Option<Box<TreapNode<T>>>) -> usize {
    let mut best = 0;
    let mut st = vec![(root, 1usize)];
    while let Some((n, d)) = st.pop() {
        if let Some(b) = n {
            best = best.max(d);
            st.push((&b.left, d + 1));
            st.push((&b.right, d + 1));
        }
    }
    best
}
fn dismantle<T>(t: Treap<T>) {
    let mut st = vec![t.root];
    while let Some(n) = st.pop() {
        if let Some(mut b) = n {
            st.push(b.left.take());
            st.push(b.right.take());
        }
    }
}

/// n one-element treaps, each created by its own short-lived worker thread, concatenated in order.
fn build(n: u32) -> (Treap<It>, Vec<u32>) {
    let mut t: Treap<It> = Treap::new();
    let mut model = Vec::new();
    for i in 0..n {
        let piece = std::thread::spawn(move || Treap::from_item(It::new(i))).join().unwrap();
        t = Treap::merge(t, piece);
        model.push(i);
    }
    (t, model)
}

#[test]
fn nodes_created_on_different_threads_have_independent_priorities() {
    const N: u32 = 3000;
    let (mut t, mut model) = build(N);

    // all priorities equal?  (direct symptom)
    let p0 = t.root.as_ref().unwrap().priority;
    let mut distinct = std::collections::BTreeSet::new();
    {
        let mut st = vec![&t.root];
        while let Some(n) = st.pop() {
            if let Some(b) = n {
                distinct.insert(b.priority);
                st.push(&b.left);
                st.push(&b.right);
            }
        }
    }
    let d = depth(&t.root);
    if d > 300 {
        // a random treap on 3000 nodes has depth ~30; depth > 300 has probability < 1e-100
        dismantle(t);
        panic!(
            "treap of {} nodes built from {} threads has depth {} ({} distinct priorities, root priority {})",
            N,
            N,
            d,
            distinct.len(),
            p0
        );
    }

    // on a correct library the sequence operations simply work
    assert_eq!(t.remove_at(0).x, model.remove(0));
    let (l, r) = t.split_at(1000);
    assert_eq!(l.size(), 1000);
    let mut t = Treap::merge(r, l);
    model.rotate_left(1000);
    assert_eq!(t.collect().iter().map(|i| i.x).collect::<Vec<_>>(), model);
    assert_eq!(t.first().map(|i| i.x), model.first().cloned());
    assert_eq!(t.last().map(|i| i.x), model.last().cloned());
}

/// The user-visible consequence: a valid `remove_at(0)` on a 60000-element treap aborts the process
/// ("thread ... has overflowed its stack") in both debug and release (5000 elements are enough in a debug build).
#[test]
#[ignore]
fn valid_operations_abort_with_stack_overflow() {
    let (mut t, mut model) = build(60000);
    assert_eq!(t.remove_at(0).x, model.remove(0));
    let (l, r) = t.split_at(0);
    assert!(l.is_empty());
    let mut t = r;
    assert_eq!(t.collect().iter().map(|i| i.x).collect::<Vec<_>>(), model);
    drop(t);
}
