// C03_2: the priority stream is a fixed constant (LCG seeded with 42 at the start of every thread), so the
// shape of a treap is a pure, publicly computable function of the operation history. A perfectly valid
// history of insert_at calls (every position within 0..=len) therefore drives the treap into a chain of
// depth n, and the recursive split/merge overflow the stack (process abort) for a few thousand elements.
//
// Run:  cp FOUND/C03_2/demo.rs rlib/treap/tests/found_demo.rs
//       cargo test --offline -p rlib_treap --test found_demo
// First test: clean assertion failure. Second test (#[ignore]): the actual abort, run with `-- --ignored`.

use rlib_rand::Rng;
use rlib_treap::*;

#[derive(Debug)]
struct It {
    x: u32,
    sz: usize,
}
impl It {
    fn new(x: u32) -> Self {
        It { x, sz: 1 }
    }
}
impl TreapItem for It {
    fn update(&mut self, l: Option<&Self>, r: Option<&Self>) {
        self.sz = 1 + l.map(|i| i.sz).unwrap_or(0) + r.map(|i| i.sz).unwrap_or(0);
    }
}
impl TreapItemSized for It {
    fn size(&self) -> usize {
        self.sz
    }
}

fn depth<T>(root: &Option<Box<TreapNode<T>>>) -> usize {
    let mut best = 0;
    let mut st = vec![(root, 1usize)];
    while let Some((n, d)) = st.pop() {
        if let Some(b) = n {
            best = best.max(d);
            st.push((&b.left, d + 1));
            st.push((&b.right, d + 1));
        }
    }
    best
}
fn dismantle<T>(t: Treap<T>) {
    let mut st = vec![t.root];
    while let Some(n) = st.pop() {
        if let Some(mut b) = n {
            st.push(b.left.take());
            st.push(b.right.take());
        }
    }
}

/// The history: the i-th element is inserted at the rank that a *guessed* priority has among the guessed
/// priorities so far. The guess is simply "what an Rng seeded with 42 would output"; the demo never looks
/// inside the treap. For a library with unpredictable priorities this is just some arbitrary valid history.
fn run(n: usize) -> (Treap<It>, Vec<u32>) {
    let mut guess = Rng::from_seed(42);
    let mut sorted: Vec<u32> = Vec::new();
    let mut t: Treap<It> = Treap::new();
    let mut model: Vec<u32> = Vec::new();
    for i in 0..n {
        let p = guess.next_raw() as u32;
        let pos = sorted.partition_point(|&q| q < p);
        sorted.insert(pos, p);
        assert!(pos <= model.len()); // valid position
        t.insert_at(pos, It::new(i as u32));
        model.insert(pos, i as u32);
        assert_eq!(t.size(), model.len());
    }
    (t, model)
}

#[test]
fn shape_is_not_predictable_from_the_operation_history() {
    // fresh thread => the library's per-thread stream is at its start
    std::thread::spawn(|| {
        const N: usize = 1500;
        let (mut t, model) = run(N);
        let d = depth(&t.root);
        if d > 200 {
            dismantle(t);
            panic!("{} valid insert_at calls produced a treap of depth {}", N, d);
        }
        assert_eq!(t.collect().iter().map(|i| i.x).collect::<Vec<_>>(), model);
    })
    .join()
    .unwrap();
}

/// 5000 valid insert_at calls abort a debug build (default 2 MiB test-thread stack), 50000 a release build:
/// "thread ... has overflowed its stack / fatal runtime error: stack overflow".
#[test]
#[ignore]
fn valid_insert_history_aborts_with_stack_overflow() {
    std::thread::spawn(|| {
        let (mut t, model) = run(50000);
        assert_eq!(t.collect().iter().map(|i| i.x).collect::<Vec<_>>(), model);
    })
    .join()
    .unwrap();
}
