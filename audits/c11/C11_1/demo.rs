// Crate: rlib_gcd  -> copy to rlib/gcd/tests/c11_crt_narrow.rs
// Run:   cargo test --offline -p rlib_gcd --test c11_crt_narrow          (debug: panics "attempt to multiply with overflow" at gcd/src/lib.rs:26)
//        cargo test --offline --release -p rlib_gcd --test c11_crt_narrow (release: silently returns a wrong residue)
// --release is NOT needed; the test fails in both profiles (differently).
//
// AMBIGUOUS-DOMAIN candidate: moduli <= 2^20, reduced residues, inputs / lcm / answer all fit the
// integer type (i32, i8); only the solver's own unreduced Bezout coefficient does not.
use rlib_gcd::*;

#[test]
fn crt_i32_everything_mathematical_fits() {
    // x = 1 (mod 3), x = 1000000 (mod 1048573); lcm = 3145719 < 2^31; unique answer 1000000.
    assert_eq!(1_000_000 % 3, 1);
    assert_eq!(crt(1i32, 3, 1_000_000, 1_048_573), Some(1_000_000));
}

#[test]
fn crt_i8_everything_mathematical_fits() {
    // x = 1 (mod 2), x = 62 (mod 63); lcm = 126 <= i8::MAX; unique answer 125.
    assert_eq!(crt(1i8, 2, 62, 63), Some(125));
}
