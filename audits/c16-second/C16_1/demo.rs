// C16_1: a treap that receives every 2^20-th node created on the main thread is 1.17x .. 3x deeper than
// 5*log2(n+1)+20.  Equivalent history: 2^20 treaps grown in lock step (round robin, one append per treap and
// round); the treap with index 89616 is the one isolated here (keeping all 2^20 treaps needs ~25 GB).
//
// Put into rlib/treap/tests/ and run alone (the test thread must be the first thread of the process that
// creates a node, i.e. stream k = 0, seed 42):
//     cargo test --offline --release -p rlib_treap --test demo
// --release: ~3 s (ROUNDS = 800); without --release about 27 s.
use rlib_treap::*;

struct Unit;
impl TreapItem for Unit {}

const STRIDE: usize = 1 << 20; // number of lock-step treaps
const WHICH: usize = 89_616; // index of the observed treap (0-based creation index of its first node)
const ROUNDS: usize = 800; // nodes per treap; 10_000 gives height 172 against a bound of 86.4 (about 25 s in release)

fn height_and_heap(root: &Option<Box<TreapNode<Unit>>>) -> (usize, usize, bool) {
    let (mut n, mut h, mut heap) = (0, 0, true);
    let mut stack = Vec::new();
    if let Some(r) = root {
        stack.push((r, 1usize));
    }
    while let Some((node, d)) = stack.pop() {
        n += 1;
        h = h.max(d);
        for c in [&node.left, &node.right].into_iter().flatten() {
            heap &= node.priority <= c.priority;
            stack.push((c, d + 1));
        }
    }
    (n, h, heap)
}

#[test]
fn every_2_pow_20th_node_of_the_main_thread() {
    let mut observed: Option<Box<TreapNode<Unit>>> = None;
    for _round in 0..ROUNDS {
        for j in 0..STRIDE {
            // one new node for treap j; the nodes of all treaps but one are dropped at once to keep the memory small
            let node = TreapNode::new(Unit);
            if j == WHICH {
                observed = TreapNode::merge(observed.take(), Some(Box::new(node)));
            }
        }
    }
    let observed = Treap { root: observed };
    let (n, h, heap) = height_and_heap(&observed.root);
    let bound = 5.0 * ((n + 1) as f64).log2() + 20.0;
    println!("n = {}, height = {}, bound = {:.1}, heap order ok = {}", n, h, bound, heap);
    assert_eq!(n, ROUNDS);
    assert!(heap, "heap order broken");
    assert!(h as f64 <= bound, "height {} exceeds 5*log2(n+1)+20 = {:.1} for n = {}", h, bound, n);
}
