// C16 demo: round-robin ("lock-step") interleave of nodes created on many threads.
// Fails on the current tree in both debug and --release (no --release needed; runs in about a second).
//
// cargo test --offline -p rlib_treap --test c16_lockstep
//
// History: T worker threads run one after another (spawn + join, so no treap is ever shared). Each worker
// builds M one-element treaps with Treap::from_item and hands them back. The main thread then concatenates
// them "column by column": first element of every worker (in worker order), then the second element of every
// worker, ... using Treap::merge only. The choice of positions depends only on (worker index, creation index),
// never on a priority value.
use rlib_treap::*;

struct Item {
    sz: usize,
}

impl TreapItem for Item {
    fn update(&mut self, left: Option<&Self>, right: Option<&Self>) {
        self.sz = 1 + left.map_or(0, |i| i.sz) + right.map_or(0, |i| i.sz);
    }
}

impl TreapItemSized for Item {
    fn size(&self) -> usize {
        self.sz
    }
}

/// (number of nodes, height in nodes, number of parent-child edges with parent.priority > child.priority)
fn inspect(t: &Treap<Item>) -> (usize, usize, usize) {
    let mut n = 0;
    let mut height = 0;
    let mut bad_edges = 0;
    let mut stack = Vec::new();
    if let Some(root) = t.root.as_ref() {
        stack.push((root, 1usize));
    }
    while let Some((node, depth)) = stack.pop() {
        n += 1;
        height = height.max(depth);
        for child in [node.left.as_ref(), node.right.as_ref()].into_iter().flatten() {
            if node.priority > child.priority {
                bad_edges += 1;
            }
            stack.push((child, depth + 1));
        }
    }
    (n, height, bad_edges)
}

fn bound(n: usize) -> f64 {
    5.0 * ((n + 1) as f64).log2() + 20.0
}

const T: usize = 4000; // worker threads
const M: usize = 32; // elements created by each worker

#[test]
fn round_robin_interleave_of_thread_built_items() {
    // phase 1: every worker returns M single-element treaps
    let mut per_worker: Vec<Vec<Option<Treap<Item>>>> = Vec::with_capacity(T);
    for _ in 0..T {
        let handle = std::thread::spawn(|| (0..M).map(|_| Some(Treap::from_item(Item { sz: 1 }))).collect::<Vec<_>>());
        per_worker.push(handle.join().unwrap());
    }
    let mut acc: Treap<Item> = Treap::new();
    for j in 0..M {
        for w in per_worker.iter_mut() {
            acc = Treap::merge(acc, w[j].take().unwrap());
        }
    }
    let (n1, h1, bad1) = inspect(&acc);

    // phase 2: same shape of history through insert_at / split_at: every worker builds one treap of M elements
    // by appending at the end; the main thread deals the chunks out round-robin, one front element at a time.
    let mut chunks: Vec<Treap<Item>> = Vec::with_capacity(T);
    for _ in 0..T {
        let handle = std::thread::spawn(|| {
            let mut t: Treap<Item> = Treap::new();
            for i in 0..M {
                t.insert_at(i, Item { sz: 1 });
            }
            t
        });
        chunks.push(handle.join().unwrap());
    }
    let mut acc2: Treap<Item> = Treap::new();
    for _ in 0..M {
        for c in chunks.iter_mut() {
            let (head, rest) = std::mem::replace(c, Treap::new()).split_at(1);
            *c = rest;
            acc2 = Treap::merge(acc2, head);
        }
    }
    let (n2, h2, bad2) = inspect(&acc2);

    eprintln!("phase 1: n={} height={} bound={:.1} bad_edges={}", n1, h1, bound(n1), bad1);
    eprintln!("phase 2: n={} height={} bound={:.1} bad_edges={}", n2, h2, bound(n2), bad2);
    assert_eq!(n1, T * M);
    assert_eq!(n2, T * M);
    assert_eq!(acc.size(), T * M);
    assert_eq!(acc2.size(), T * M);
    assert_eq!(bad1 + bad2, 0, "heap order broken");
    assert!(h1 as f64 <= bound(n1), "phase 1: height {} > 5*log2(n+1)+20 = {:.1} (n={})", h1, bound(n1), n1);
    assert!(h2 as f64 <= bound(n2), "phase 2: height {} > 5*log2(n+1)+20 = {:.1} (n={})", h2, bound(n2), n2);
}
