// intersect_cc reports TouchOutside (one point) for pairs of circles that properly cross in two
// points and whose centre distance is 2e-8 .. 5e-6 away from the tangency values ra+rb / ra-rb
// (the library's tolerance is 1e-9). It does so even when the near-tangency is an INTERNAL one,
// and the single point it returns can be more than 1e-7 off the smaller circle.
use rlib_geometry::{
    circle::Circle,
    point::Point,
    util::{dist, intersect_cc, CircleIntersection},
};

fn check(a: Circle, b: Circle) {
    let d = dist(&a.c, &b.c);
    let (sum, dif) = (a.r + b.r, (a.r - b.r).abs());
    // strictly between internal and external tangency, with a margin well above the 1e-9 tolerance
    assert!(d < sum - 1e-8 && d > dif + 1e-8, "d={d} sum={sum} dif={dif}");
    for (x, y) in [(&a, &b), (&b, &a)] {
        let res = intersect_cc(x, y);
        for p in res {
            let e1 = (dist(&p, &a.c) - a.r).abs();
            let e2 = (dist(&p, &b.c) - b.r).abs();
            assert!(e1 < 1e-7 && e2 < 1e-7, "reported point {p:?} is off a circle: {e1:e} / {e2:e}, result {res:?}");
        }
        match res {
            CircleIntersection::Intersect(u, v) => {
                // exact geometry: the two points are 2*sqrt(ra^2 - h^2) apart
                let h = (d * d + a.r * a.r - b.r * b.r) / (2.0 * d);
                let sep = 2.0 * (a.r * a.r - h * h).sqrt();
                assert!((dist(&u, &v) - sep).abs() < 1e-5, "separation {} expected {}", dist(&u, &v), sep);
            }
            other => panic!(
                "circles cross in two points (d - (ra+rb) = {:e}, d - |ra-rb| = {:e}) but intersect_cc returned {other:?}",
                d - sum,
                d - dif
            ),
        }
    }
}

#[test]
fn external_near_tangency_margin_5e_8() {
    check(Circle::new(Point::new(0., 0.), 100.), Circle::new(Point::new(101. - 5e-8, 0.), 1.));
}

#[test]
fn internal_near_tangency_margin_5e_8_reported_as_touch_outside() {
    check(Circle::new(Point::new(0., 0.), 100.), Circle::new(Point::new(99. + 5e-8, 0.), 1.));
}

#[test]
fn external_near_tangency_margin_5e_6_point_off_small_circle() {
    check(Circle::new(Point::new(0., 0.), 1000.), Circle::new(Point::new(1000.1 - 5e-6, 0.), 0.1));
}

#[test]
fn general_position_margin_2e_8() {
    check(
        Circle::new(Point::new(-96.51425646249967, 51.270630821430956), 0.8952721159143212),
        Circle::new(Point::new(-49.58344504282019, 63.08608887000366), 49.29058291635538),
    );
}

#[test]
fn general_position_internal_margin_1e_7() {
    check(
        Circle::new(Point::new(146.98875158634496, -353.9411017264961), 0.6192164966937537),
        Circle::new(Point::new(-126.25641580292404, 39.88317495471358), 479.9525893273375),
    );
}
