// Circle::position applies its 1e-9 tolerance RELATIVE to the radius, so for a circle of radius
// 400 every point within 4e-7 of the circumference is called Border, while the rest of the
// library (intersect_cl / intersect_cc / Line::contains) uses 1e-9 as an absolute tolerance.
use rlib_geometry::{
    circle::{Circle, PointPosition},
    line::Line,
    point::Point,
    util::{intersect_cl, CircleLineIntersection},
};

#[test]
fn point_1e_7_outside_is_outside() {
    let c = Circle::new(Point::new(0., 0.), 400.);
    // 1e-7 outside the circumference: 100x the library tolerance
    assert_eq!(c.position(&Point::new(400. + 1e-7, 0.)), PointPosition::Outside);
}

#[test]
fn point_1e_7_inside_is_inside() {
    let c = Circle::new(Point::new(0., 0.), 400.);
    assert_eq!(c.position(&Point::new(0., -400. + 1e-7)), PointPosition::Inside);
}

#[test]
fn general_position() {
    let c = Circle::new(Point::new(437.79841839934204, 320.78659205979045), 464.96804264066895);
    let n = Point::new(0.6, 0.8);
    assert_eq!(c.position(&(c.c + n * (c.r - 2e-7))), PointPosition::Inside);
    assert_eq!(c.position(&(c.c + n * (c.r + 2e-7))), PointPosition::Outside);
}

#[test]
fn consistent_with_circle_line_intersection() {
    // the vertical line x = 400 + 1e-7 misses the circle according to intersect_cl ...
    let c = Circle::new(Point::new(0., 0.), 400.);
    let x = 400. + 1e-7;
    let l = Line::between(&Point::new(x, -5.), &Point::new(x, 7.));
    assert!(matches!(intersect_cl(&c, &l), CircleLineIntersection::None));
    // ... so no point of that line can be on the circle
    assert_ne!(c.position(&Point::new(x, 0.)), PointPosition::Border);
}
