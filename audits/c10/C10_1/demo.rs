// intersect_ll returns a point that is more than 1e-7 away from both lines,
// for clearly non-parallel lines (sine of the angle about 1e-7 .. 3e-7, i.e. 100x .. 300x
// the library's 1e-9 parallel tolerance) whose defining points and intersection
// all have coordinates <= 1e3.
use rlib_geometry::{
    line::Line,
    point::Point,
    util::{intersect_ll, parallel},
};

/// perpendicular distance from p to the line through u, v
fn line_dist(u: &Point, v: &Point, p: &Point) -> f64 {
    let (dx, dy) = (v.x - u.x, v.y - u.y);
    (dx * (p.y - u.y) - dy * (p.x - u.x)).abs() / (dx * dx + dy * dy).sqrt()
}

fn check(u1: Point, v1: Point, u2: Point, v2: Point) {
    let l1 = Line::between(&u1, &v1);
    let l2 = Line::between(&u2, &v2);
    // sine of the angle between the lines, computed from the defining points
    let (d1, d2) = (v1 - u1, v2 - u2);
    let sine = d1.cp(&d2).abs() / (d1.len() * d2.len());
    assert!(sine > 9e-8, "configuration must be clearly non-parallel, sine = {sine:e}");
    assert!(!parallel(&l1, &l2));
    // sanity: the bound is attainable, the parametric formula q = u1 + d1 * t meets it with room to spare
    let q = u1 + d1 * ((u2 - u1).cp(&d2) / d1.cp(&d2));
    assert!(line_dist(&u1, &v1, &q) < 1e-9 && line_dist(&u2, &v2, &q) < 1e-9);
    let p = intersect_ll(&l1, &l2).expect("lines are not parallel");
    assert!(p.x.abs() <= 1e3 && p.y.abs() <= 1e3);
    let e1 = line_dist(&u1, &v1, &p);
    let e2 = line_dist(&u2, &v2, &p);
    assert!(
        e1 < 1e-7 && e2 < 1e-7,
        "intersection {p:?} is off the lines: dist to line1 = {e1:e}, dist to line2 = {e2:e} (sine = {sine:e})"
    );
    // the library's own point-on-line test must agree
    assert!(l1.contains(&p) && l2.contains(&p), "Line::contains rejects the reported intersection {p:?}");
}

#[test]
fn integer_lattice_lines_sharing_a_lattice_point() {
    // exact intersection is the lattice point (896, -921); cross product of the directions is 1
    check(Point::new(-954., -304.), Point::new(896., -921.), Point::new(896., -921.), Point::new(-957., -303.));
}

#[test]
fn integer_lattice_second_example() {
    // exact intersection is the lattice point (-354, 911)
    check(Point::new(-933., -918.), Point::new(-354., 911.), Point::new(-354., 911.), Point::new(-826., -580.));
}

#[test]
fn real_valued_lines_at_angle_1e_7() {
    check(
        Point::new(-42.477933583370714, -645.2778697129668),
        Point::new(691.9103172215789, -211.13239223161835),
        Point::new(741.7810391176547, -181.65046012051755),
        Point::new(37.07394409366219, -598.2495380029121),
    );
}
