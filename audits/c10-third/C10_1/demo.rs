// C10_1: intersect_cc reports a touch point far off both circles when the centre offset is so small that its
// square is subnormal (|offset| below ~1e-157) and the radii differ by one rounded EPS.
// Place in rlib/geometry/tests/ and run `cargo test --offline -p rlib_geometry --test demo`.
use rlib_geometry::{
    circle::Circle,
    point::Point,
    util::intersect_cc,
};

fn off_circle(p: &Point, c: &Circle) -> f64 {
    ((p.x - c.c.x).hypot(p.y - c.c.y) - c.r).abs()
}

fn check(a: Circle, b: Circle) {
    for (p, q) in [(&a, &b), (&b, &a)] {
        let res = intersect_cc(p, q);
        for pt in res {
            assert!(pt.x.is_finite() && pt.y.is_finite(), "{res:?}");
            let e = off_circle(&pt, &a).max(off_circle(&pt, &b));
            assert!(
                e <= 1e-7,
                "intersect_cc({p:?}, {q:?}) = {res:?}: the reported point is {e:e} away from the circles"
            );
        }
    }
}

#[test]
fn nearly_concentric_offset_2e_162() {
    // radii 1000 and 1000.000000001 (difference 9.99989e-10 <= EPS as doubles), centres 2e-162 apart
    check(Circle::new(Point::new(0.0, 0.0), 1000.000000001), Circle::new(Point::new(2e-162, 0.0), 1000.0));
}

#[test]
fn nearly_concentric_offset_1e_158() {
    check(Circle::new(Point::new(0.0, 0.0), 1000.000000001), Circle::new(Point::new(1e-158, 0.0), 1000.0));
}

#[test]
fn nearly_concentric_small_radius_diagonal_offset() {
    check(
        Circle::new(Point::new(1e-160, -1e-160), 0.5),
        Circle::new(Point::new(-1e-160, 1e-160), 0.500000001),
    );
}
