// C14_1: shuffle is not a fair permutation over seed families that differ only in
// their high bits (e.g. seeds k << 32 or k << 33): whole classes of rearrangements
// of a short slice are never produced, although >= 10^5 distinct seeds are used.
//
// Run: cp demo.rs rlib/rand/tests/found_demo.rs
//      cargo test --offline --release -p rlib_rand --test found_demo
// (also fails without --release, just slower)

use rlib_rand::*;
use std::collections::HashMap;

const SEEDS: u64 = 200_000;

fn fact(n: usize) -> usize {
    (1..=n).product()
}

/// Shuffles 0..n once per seed and returns (chi-square against uniform, number of distinct results).
fn tally(n: usize, seeds: impl Iterator<Item = u64>) -> (f64, usize) {
    let mut freq: HashMap<Vec<u8>, usize> = HashMap::new();
    let mut total = 0usize;
    for seed in seeds {
        let mut rng = Rng::from_seed(seed);
        let mut v: Vec<u8> = (0..n as u8).collect();
        rng.shuffle(&mut v);
        let mut sorted = v.clone();
        sorted.sort();
        assert_eq!(sorted, (0..n as u8).collect::<Vec<_>>(), "shuffle must permute");
        *freq.entry(v).or_default() += 1;
        total += 1;
    }
    let k = fact(n);
    let e = total as f64 / k as f64;
    let mut chi2: f64 = freq.values().map(|&x| (x as f64 - e).powi(2) / e).sum();
    chi2 += (k - freq.len()) as f64 * e;
    (chi2, freq.len())
}

fn check(name: &str, n: usize, seeds: impl Iterator<Item = u64>) {
    let (chi2, distinct) = tally(n, seeds);
    let df = (fact(n) - 1) as f64;
    // very generous: mean df, sd sqrt(2 df); allow 12 sd
    let limit = df + 12.0 * (2.0 * df).sqrt() + 10.0;
    assert_eq!(
        distinct,
        fact(n),
        "{}: n={}: only {} of {} rearrangements are ever produced over {} seeds",
        name,
        n,
        distinct,
        fact(n),
        SEEDS
    );
    assert!(chi2 <= limit, "{}: n={}: chi2={:.1} > {:.1} (df={})", name, n, chi2, limit, df);
}

// Sanity: the very same check passes for consecutive seeds, so the check is not too strict.
#[test]
fn consecutive_seeds_are_fair() {
    for n in 2..=6 {
        check("seeds 0..200000", n, 0..SEEDS);
    }
}

// 200000 distinct seeds k << 33: a 2-element slice is NEVER swapped (or always swapped).
#[test]
fn two_elements_seeds_multiple_of_2_pow_33() {
    check("seeds k<<33", 2, (0..SEEDS).map(|k| k << 33));
}

// 200000 distinct seeds k << 32: for n = 4, 5, 6 only 12 / 60 / 180 rearrangements occur.
#[test]
fn short_slices_seeds_multiple_of_2_pow_32() {
    for n in 2..=6 {
        check("seeds k<<32", n, (0..SEEDS).map(|k| k << 32));
    }
}

// Milder stride 2^28 (every rearrangement occurs, but frequencies are far from equal).
#[test]
fn short_slices_seeds_multiple_of_2_pow_28() {
    for n in 2..=6 {
        check("seeds k<<28", n, (0..SEEDS).map(|k| k << 28));
    }
}

// The cause in one line: the whole stream of draws from 0..2 ignores the top 31 seed bits.
#[test]
fn small_range_stream_depends_on_high_seed_bits() {
    let mut differs = false;
    for hi in 1..1000u64 {
        let mut a = Rng::from_seed(12345);
        let mut b = Rng::from_seed(12345 + (hi << 33));
        for _ in 0..64 {
            let x: u32 = a.next(0..2);
            let y: u32 = b.next(0..2);
            differs |= x != y;
        }
    }
    assert!(differs, "999 different seeds produce bit-for-bit the same stream of draws from 0..2");
}
