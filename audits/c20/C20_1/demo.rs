// Crate/dir: rlib/lambda  -> copy to rlib/lambda/tests/c20_1_demo.rs
// Run: cargo test --offline -p rlib_lambda --test c20_1_demo
// COMPILES, then FAILS at run time on the current tree (both tests).
//
// Root cause: rec_lambda! always names its helper `fn _lambda_name_` (lib.rs:7) and the
// local call macro expands to a call of the *plain, unhygienic item name* `_lambda_name_`
// (lib.rs:13). Item names are not hygienic in macro_rules, so the name is resolved at the
// place where `name!(..)` is written. Inside the body of a nested rec_lambda the innermost
// `_lambda_name_` is the nested lambda's own helper, so `outer!(..)` written there silently
// calls the inner function.
use rlib_lambda::rec_lambda;

#[test]
fn nested_lambda_calls_outer_recursion() {
    // hand-written equivalent
    fn even(n: u32) -> bool {
        fn odd(m: u32) -> bool {
            if m == 0 { false } else { even(m - 1) }
        }
        if n == 0 { true } else { odd(n - 1) }
    }

    // both invocations are the tested/documented shape "no captures, one argument, return type"
    let is_even = rec_lambda!(even, || {
        |n: u32| -> bool {
            let odd = rec_lambda!(odd, || {
                |m: u32| -> bool {
                    // recursive call of the OUTER lambda "through macro", as the README demands
                    if m == 0 { false } else { even!(m - 1) }
                }
            });
            if n == 0 { true } else { odd(n - 1) }
        }
    });

    for n in 0..8u32 {
        assert_eq!(is_even(n), even(n), "n = {}", n); // fails at n = 2: macro version says false
    }
}

#[test]
fn user_helper_with_the_internal_name_is_hijacked() {
    // same root cause, more contrived trigger: a user item that happens to be called `_lambda_name_`
    fn _lambda_name_(v: i64) -> i64 {
        v * 1000
    }
    let f = rec_lambda!(go, || {
        |n: i64| -> i64 {
            if n >= 100 {
                return -1; // only reachable when the helper call below was hijacked
            }
            if n == 0 { _lambda_name_(100) } else { go!(n - 1) + 1 }
        }
    });
    // explicit recursion: helper(100) + 3 = 100_003 ; macro version: -1 + 3 = 2
    assert_eq!(f(3), 100_003);
}
