// Crate/dir: rlib/lambda  -> copy to rlib/lambda/tests/c20_2_demo.rs
// Run: cargo test --offline -p rlib_lambda --test c20_2_demo
// FAILS TO COMPILE on the current tree:
//   error: lifetime may not live long enough   (pointing at the rec_lambda! invocation)
// The hand-written function next to it compiles and passes.
use rlib_lambda::rec_lambda;

#[test]
fn reference_argument_and_reference_return() {
    // equivalent explicit recursion - fine
    fn go(s: &str) -> &str {
        if s.len() <= 1 { s } else { go(&s[1..]) }
    }
    assert_eq!(go("abc"), "c");

    // shape: no captures, one argument, with return type, plain call syntax
    let last = rec_lambda!(go, || {
        |s: &str| -> &str {
            if s.len() <= 1 { s } else { go!(&s[1..]) }
        }
    });
    assert_eq!(last("abc"), "c");
}
