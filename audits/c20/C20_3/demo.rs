// Crate/dir: rlib/lambda  -> copy to rlib/lambda/tests/c20_3_demo.rs
// Run: cargo test --offline -p rlib_lambda --test c20_3_demo
// FAILS TO COMPILE on the current tree:
//   error[E0596]: cannot borrow value as mutable, as it is not declared as mutable
// (the hand-written `solve_explicit` right below compiles and passes).
use rlib_lambda::rec_lambda;

fn solve_explicit(g: &Vec<Vec<usize>>, par: &mut Vec<usize>) {
    fn dfs(v: usize, p: usize, g: &Vec<Vec<usize>>, par: &mut Vec<usize>) {
        par[v] = p;
        for &k in g[v].iter() {
            if k != p {
                dfs(k, v, g, par);
            }
        }
    }
    dfs(0, usize::MAX, g, par);
}

// identical to the crate's own `mutable` test, except that the captured variables are this
// function's parameters (their types are literally the ones written in the capture list)
fn solve_lambda(g: &Vec<Vec<usize>>, par: &mut Vec<usize>) {
    let mut dfs = rec_lambda!(dfs, |g: &Vec<Vec<usize>>, par: &mut Vec<usize>| {
        |v: usize, p: usize| {
            par[v] = p;
            for &k in g[v].iter() {
                if k != p {
                    dfs!(k, v);
                }
            }
        }
    });
    dfs(0, usize::MAX);
}

#[test]
fn captured_variable_is_a_mut_reference_parameter() {
    let g = vec![vec![1], vec![0, 2], vec![1]];
    let mut a = vec![0; 3];
    let mut b = vec![0; 3];
    solve_explicit(&g, &mut a);
    solve_lambda(&g, &mut b);
    assert_eq!(a, b);
}
