// Crate: rlib_iter (copy to rlib/iter/tests/c15_1_demo.rs)
// Run:   cargo test --offline -p rlib_iter --test c15_1_demo      (fails in debug and with --release alike)
//
// iter_permutations is not fused: after it has returned None, polling it again
// yields arrangements a second time (starting from the SECOND arrangement, the
// sorted one is skipped), so a consumer that drains it in batches sees
// arrangements more than once / never terminates.  The mask and neighbour
// iterators of the same crate stay at None.
use rlib_iter::*;

#[test]
fn direct_repoll_after_none() {
    let mut it = iter_permutations(vec![1, 2, 3]);
    let mut seen = Vec::new();
    while let Some(p) = it.next() {
        seen.push(p);
    }
    assert_eq!(seen.len(), 6);
    // the enumeration is over; it must stay over
    let again = it.next();
    assert_eq!(again, None, "iterator produced {:?} after it had returned None", again);
}

#[test]
fn batched_drain_lists_each_arrangement_once() {
    // Take the 3! = 6 arrangements in batches of 4 (4 does not divide 6, so the
    // second batch hits None inside `take`, and the loop polls once more to
    // learn that nothing is left).
    let mut it = iter_permutations(vec![1, 2, 3]);
    let mut all: Vec<Vec<i32>> = Vec::new();
    let mut rounds = 0;
    loop {
        let batch: Vec<Vec<i32>> = it.by_ref().take(4).collect();
        if batch.is_empty() {
            break;
        }
        all.extend(batch);
        rounds += 1;
        assert!(rounds <= 10, "enumeration never ends; after 10 rounds got {} items: {:?}", all.len(), all);
    }
    let expected = vec![
        vec![1, 2, 3],
        vec![1, 3, 2],
        vec![2, 1, 3],
        vec![2, 3, 1],
        vec![3, 1, 2],
        vec![3, 2, 1],
    ];
    assert_eq!(all, expected);
}

#[test]
fn same_pattern_is_fine_for_masks_and_neighbours() {
    // control: identical batch pattern terminates and is exact for the other iterators
    let mut it = iter_submasks(0b111u8);
    let mut all = Vec::new();
    loop {
        let batch: Vec<u8> = it.by_ref().take(3).collect();
        if batch.is_empty() {
            break;
        }
        all.extend(batch);
    }
    assert_eq!(all, vec![7, 6, 5, 4, 3, 2, 1, 0]);
    let mut it = iter_neighbours_8(3, 3, 1, 1);
    let mut n = 0;
    loop {
        let c = it.by_ref().take(3).count();
        if c == 0 {
            break;
        }
        n += c;
    }
    assert_eq!(n, 8);
}
