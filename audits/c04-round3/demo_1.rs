// C04 demo 1: lopsided length pairs inside the envelope max(|a|,|b|)^2 * min(len a, len b) <= 1e12.
// multiply()/multiply_into() return wrong coefficients, while fft + pointwise product + fft_inv on the
// same object returns the exact convolution.
// Copy to rlib/fft/tests/ and run: cargo test --offline -p rlib_fft --test demo_1   (fails in debug and --release)
use rlib_fft::{Complex, FFT};

fn naive(a: &[i32], b: &[i32]) -> Vec<i64> {
    let mut c = vec![0i64; a.len() + b.len() - 1];
    for (i, &x) in a.iter().enumerate() {
        for (j, &y) in b.iter().enumerate() {
            c[i + j] += x as i64 * y as i64;
        }
    }
    c
}

fn via_fft(fft: &mut FFT<f64>, a: &[i32], b: &[i32]) -> Vec<i64> {
    let mut n = 1;
    while n < a.len() + b.len() - 1 {
        n *= 2;
    }
    let fa = fft.fft(a, n);
    let fb = fft.fft(b, n);
    let fc: Vec<Complex<f64>> = fa.into_iter().zip(fb).map(|(x, y)| x * y).collect();
    let mut c = fft.fft_inv(&fc);
    c.truncate(a.len() + b.len() - 1);
    c
}

fn in_envelope(a: &[i32], b: &[i32]) -> bool {
    let m = a.iter().chain(b.iter()).map(|x| x.unsigned_abs() as f64).fold(0.0, f64::max);
    m * m * (a.len().min(b.len()) as f64) <= 1e12
}

fn count_wrong(x: &[i64], y: &[i64]) -> (usize, i64) {
    assert_eq!(x.len(), y.len());
    let wrong = x.iter().zip(y).filter(|(p, q)| p != q).count();
    let worst = x.iter().zip(y).map(|(p, q)| (p - q).abs()).max().unwrap();
    (wrong, worst)
}

// the constant polynomial 1 times b must be b
#[test]
fn identity_times_long_square_wave() {
    let n = 1 << 16;
    let a = vec![1i32];
    let b: Vec<i32> = (0..n).map(|i| if i % 4 < 2 { 1_000_000 } else { -1_000_000 }).collect();
    assert!(in_envelope(&a, &b));
    let want: Vec<i64> = b.iter().map(|&x| x as i64).collect();

    let mut fft = FFT::<f64>::new();
    assert_eq!(via_fft(&mut fft, &a, &b), want, "fft + pointwise + fft_inv");
    let got = fft.multiply(&a, &b);
    let (wrong, worst) = count_wrong(&got, &want);
    assert_eq!(wrong, 0, "multiply([1], b): {} of {} coefficients wrong, worst by {}", wrong, n, worst);
}

// same family as the crate's own precision test (uniform non-negative values), only lopsided: 3 x 65536
#[test]
fn three_by_65536_nonnegative_random() {
    let v = 577_350u64; // v^2 * 3 <= 1e12
    let mut s = 88172645463325252u64;
    let mut r = move || {
        s ^= s << 13;
        s ^= s >> 7;
        s ^= s << 17;
        (s % (v + 1)) as i32
    };
    let a: Vec<i32> = (0..3).map(|_| r()).collect();
    let b: Vec<i32> = (0..1 << 16).map(|_| r()).collect();
    assert!(in_envelope(&a, &b));
    let want = naive(&a, &b);

    let mut fft = FFT::<f64>::new();
    assert_eq!(via_fft(&mut fft, &a, &b), want, "fft + pointwise + fft_inv");
    let mut dst = vec![7i64; want.len()];
    fft.multiply_into(&b, &a, &mut dst);
    let got: Vec<i64> = dst.iter().map(|x| x - 7).collect();
    let (wrong, worst) = count_wrong(&got, &want);
    assert_eq!(wrong, 0, "multiply_into: {} of {} coefficients wrong, worst by {}", wrong, want.len(), worst);
}
