// C09 audit, candidate 1 (interpretation-dependent): Writer::flush() hands the pending bytes to the
// sink with write_all() but never calls Write::flush() on the sink. When the sink itself buffers
// (std's StdoutLock used by make_io! is a LineWriter; a BufWriter over a file/socket), the bytes written
// since the sink's last own flush point are NOT delivered "after a flush" - only when the writer is
// dropped (and then only because the boxed sink is dropped with it).
//
// copy to rlib/io/tests/demo_1.rs ; cargo test --offline -p rlib_io --test demo_1   (debug and --release)
use rlib_io::make_output_macro_;
use std::io::{Read, Write};
use std::process::{Command, Stdio};
use std::sync::mpsc;
use std::time::Duration;

#[test]
fn child_interactive() {
    if std::env::var("C09_CHILD").is_err() {
        return;
    }
    rlib_io::make_io!(reader, writer);
    out!("?", 5);
    writer.flush();
    // wait for the answer
    let ans: i32 = reader.read();
    outln!();
    outln!("!", ans + 1);
}

#[test]
fn parent_sees_query_after_flush() {
    let exe = std::env::current_exe().unwrap();
    let mut child = Command::new(exe)
        .args(["--exact", "child_interactive", "--nocapture", "--test-threads=1"])
        .env("C09_CHILD", "1")
        .stdin(Stdio::piped())
        .stdout(Stdio::piped())
        .stderr(Stdio::null())
        .spawn()
        .unwrap();
    let mut out = child.stdout.take().unwrap();
    let (tx, rx) = mpsc::channel::<Vec<u8>>();
    std::thread::spawn(move || {
        let mut buf = [0u8; 4096];
        loop {
            match out.read(&mut buf) {
                Ok(0) | Err(_) => break,
                Ok(n) => {
                    if tx.send(buf[..n].to_vec()).is_err() {
                        break;
                    }
                }
            }
        }
    });
    let mut seen = Vec::new();
    let deadline = std::time::Instant::now() + Duration::from_secs(3);
    let mut got_query = false;
    while std::time::Instant::now() < deadline {
        if let Ok(chunk) = rx.recv_timeout(Duration::from_millis(100)) {
            seen.extend_from_slice(&chunk);
        }
        if String::from_utf8_lossy(&seen).contains("? 5") {
            got_query = true;
            break;
        }
    }
    // answer (or unblock) the child in any case
    let mut stdin = child.stdin.take().unwrap();
    let _ = stdin.write_all(b"41\n");
    drop(stdin);
    let _ = child.wait();
    while let Ok(chunk) = rx.recv_timeout(Duration::from_millis(300)) {
        seen.extend_from_slice(&chunk);
    }
    let all = String::from_utf8_lossy(&seen).to_string();
    println!("all output: {:?}", all);
    assert!(all.contains("? 5\n! 42"), "child did not run as expected: {:?}", all);
    assert!(got_query, "query '? 5' was not visible to the judge after Writer::flush()");
}

#[derive(Clone)]
struct Shared(std::rc::Rc<std::cell::RefCell<Vec<u8>>>);
impl Write for Shared {
    fn write(&mut self, buf: &[u8]) -> std::io::Result<usize> {
        self.0.borrow_mut().extend_from_slice(buf);
        Ok(buf.len())
    }
    fn flush(&mut self) -> std::io::Result<()> {
        Ok(())
    }
}

#[test]
fn bufwriter_sink_has_delivered_after_flush() {
    let store = Shared(Default::default());
    let sink = std::io::BufWriter::with_capacity(1 << 20, store.clone());
    let mut w = rlib_io::writer::Writer::new(Box::new(sink));
    w.write(&(1u8, "abc", i128::MIN));
    w.flush();
    let after_flush = store.0.borrow().clone();
    drop(w);
    assert_eq!(String::from_utf8_lossy(&store.0.borrow()), format!("1 abc {}", i128::MIN)); // fine after drop
    assert_eq!(
        String::from_utf8_lossy(&after_flush),
        format!("1 abc {}", i128::MIN),
        "bytes not delivered through the buffering sink after Writer::flush()"
    );
}
