// Crate: rlib_rational  (copy to rlib/rational/tests/c07_1.rs)
// Run:   cargo test --offline -p rlib_rational --test c07_1            (fails: "attempt to multiply with overflow" panic)
//        cargo test --offline --release -p rlib_rational --test c07_1  (fails: wrong order / wrong sum, no panic)
// --release is NOT required; the failure mode differs (panic in debug, silently wrong value in release).
//
// AMBIGUOUS-DOMAIN candidate: Rational<i32>, operands and exact results all < 2^17,
// only the un-reduced intermediate denominator b*d (46341^2 > 2^31) overflows.
use rlib_rational::*;
use std::cmp::Ordering;

type R = Rational<i32>;

#[test]
fn cmp_same_denominator_i32() {
    let x = R::new(1, 46341);
    let y = R::new(2, 46341);
    // 1/46341 < 2/46341
    assert_eq!(x.cmp(&y), Ordering::Less);
    assert!(x < y);
    assert_eq!(x.max(y), y);
}

#[test]
fn add_same_denominator_i32() {
    let x = R::new(1, 46341);
    let y = R::new(2, 46341);
    let s = x + y; // exact: 3/46341 = 1/15447
    assert_eq!((s.a, s.b), (1, 15447));
    let d = x - &y; // exact: -1/46341
    assert_eq!((d.a, d.b), (-1, 46341));
}
