// Debug profile only (overflow checks on). All element values, all element-level
// pending modifiers and all query results fit in the integer type, yet the tree
// panics with "attempt to add with overflow" - and whether it does depends on a
// read-only query issued earlier. In --release every test here passes.
use rlib_segtree::segtree_items::{MinAdd, SumAdd};
use rlib_segtree::{Segtree, SegtreeItem};

const B: i32 = 2_000_000_000;

fn run(with_query: bool) -> i32 {
    let mut t = Segtree::from_iter(vec![0i32, 0].into_iter().map(MinAdd::new));
    t.modify(0, 1, &-B); // elements: -B
    if with_query {
        assert_eq!(t.ask(0, 0).v, -B); // pushes the root: root.md = 0, leaves.md = -B
    }
    t.modify(0, 1, &B); // elements: 0
    t.modify(0, 1, &B); // elements: B   (root.md would be 2B with the query, B without)
    t.ask(0, 1).v
}

#[test]
fn model_has_no_overflow() {
    // plain array of items, modifier applied to each element individually (passes)
    let mut a = vec![MinAdd::new(0i32), MinAdd::new(0i32)];
    for m in [-B, B, B] {
        for x in a.iter_mut() {
            x.modify(&m);
        }
    }
    assert_eq!(MinAdd::merge(&a[0], &a[1]).v, B);
}

#[test]
fn without_query() {
    assert_eq!(run(false), B); // passes
}

#[test]
fn with_query() {
    assert_eq!(run(true), B); // debug: panics in MinAdd::modify (segtree_items.rs:147)
}

#[test]
fn sumadd_len_is_stored_in_value_type() {
    // 128 zeros: every range sum is 0, but the root's `len` (128) does not fit in i8
    let mut t = Segtree::new(128, SumAdd::<i8>::new(0)); // debug: panics in SumAdd::merge
    assert_eq!(t.ask(0, 0).v, 0);
    t.modify(3, 5, &1);
    assert_eq!(t.ask(0, 7).v, 3);
}
