// ask(l, r) returns the raw stored node when [l, r] coincides with a tree node,
// including that node's still-pending modifier; otherwise it returns a fresh
// merge. The returned item (public field `md`) therefore differs from the fold
// of the logical array and depends on which unrelated queries ran earlier.
use rlib_segtree::segtree_items::{Combinator, MaxAdd, MinAdd, SumAdd};
use rlib_segtree::{Segtree, SegtreeItem};

#[test]
fn ask_equals_fold_of_logical_array() {
    let mut t = Segtree::from_iter(vec![1i64, 2].into_iter().map(MinAdd::new));
    let mut a = vec![MinAdd::new(1i64), MinAdd::new(2i64)];
    t.modify(0, 1, &5);
    for x in a.iter_mut() {
        x.modify(&5);
    }
    let model = MinAdd::merge(&a[0], &a[1]);
    let got = t.ask(0, 1);
    assert_eq!((got.v, got.md), (model.v, model.md)); // library: (6, 5) vs (6, 0)
}

#[test]
fn ask_does_not_depend_on_earlier_unrelated_query() {
    let mut t = Segtree::from_iter(vec![1i64, 2, 3, 4].into_iter().map(SumAdd::new));
    t.modify(0, 3, &5);
    let before = t.ask(0, 3);
    t.ask(1, 1); // read-only query, pushes the root
    let after = t.ask(0, 3);
    assert_eq!((before.v, before.len, before.md), (after.v, after.len, after.md)); // md 5 vs 0
}

#[test]
fn combinator_same() {
    type C = Combinator<MinAdd<i32>, MaxAdd<i32>>;
    let mut t = Segtree::from_iter(vec![3, 1, 2, 4].into_iter().map(C::from));
    t.modify(0, 1, &7);
    let x = t.ask(0, 1); // exact node
    let y = t.ask(0, 2); // merged on the fly
    assert_eq!((x.0.md, x.1.md), (y.0.md, y.1.md)); // (7,7) vs (0,0)
}
