// lower_bound / lower_bound_rev seed their accumulator with T::default() and
// merge it into the first node, so they silently require Default == merge
// identity. The README's own lazy example item (derive(Default), merge = max)
// does not satisfy that, and from_iter forces a Default bound on every item.
use rlib_segtree::{Segtree, SegtreeItem};

// verbatim from rlib/segtree/README.md, "Implementing item for lazy segtree"
#[derive(Default, Clone)]
struct Item {
    x: i32,
    md: i16,
}

impl SegtreeItem<i16> for Item {
    fn merge(left: &Self, right: &Self) -> Self {
        Self { x: left.x.max(right.x), md: 0 }
    }
    fn modify(&mut self, modifier: &i16) {
        self.x += (*modifier) as i32;
        self.md += modifier;
    }
    fn push(&mut self, left: &mut Self, right: &mut Self) {
        left.modify(&self.md);
        right.modify(&self.md);
        self.md = 0;
    }
}

#[test]
fn lower_bound_matches_its_own_doc_comment() {
    let mut t = Segtree::from_iter(vec![-5, -3].into_iter().map(|x| Item { x, md: 0 }));
    // f is monotone for a max aggregate
    let f = |it: &Item| it.x >= -4;
    assert!(!f(&t.ask(0, 0))); // max = -5
    assert!(f(&t.ask(0, 1))); // max = -3
    // doc: "smallest r from [l; n-1] such that f(ask(l, r)) == true"
    assert_eq!(t.lower_bound(0, f), Some(1)); // library: Some(0)
}

#[test]
fn lower_bound_rev_matches_its_own_doc_comment() {
    let mut t = Segtree::from_iter(vec![-3, -5].into_iter().map(|x| Item { x, md: 0 }));
    let f = |it: &Item| it.x >= -4;
    assert!(!f(&t.ask(1, 1)));
    assert!(f(&t.ask(0, 1)));
    assert_eq!(t.lower_bound_rev(1, f), Some(0)); // library: Some(1)
}

#[test]
fn none_iff_no_index() {
    let mut t = Segtree::from_iter(vec![-5, -3].into_iter().map(|x| Item { x, md: 0 }));
    // no range has max >= -1
    assert_eq!(t.lower_bound(0, |it| it.x >= -1), None); // library: Some(0)
}
