#!/bin/bash
# MANIFEST.setup_cmd: offline build of the whole harness (both profiles) from files on disk only.
set -e
cd "$(dirname "$0")/harness"
export CARGO_NET_OFFLINE=true CARGO_TARGET_DIR="$(cd .. && pwd)/target"
cargo build --offline --profile checked --workspace 2>&1 | tail -3
cargo build --offline --release --workspace 2>&1 | tail -3
echo "setup ok"
