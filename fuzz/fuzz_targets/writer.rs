#![no_main]
mod common;
use libfuzzer_sys::fuzz_target;

fuzz_target!(|data: &[u8]| {
    common::quiet();
    // cargo-fuzz builds with debug assertions ON by default (flush-per-write build); the driver also builds this
    // target with -O / --release semantics (buffered)
    let buffered = !cfg!(debug_assertions);
    if let Some(case) = c09::decode(data, 1 << 16) {
        if let Err(v) = std::panic::catch_unwind(|| c09::run_case(&case, 1 << 16, buffered)).unwrap_or_else(|_| Err(vcore::Violation::new("panic", "library panicked"))) {
            common::report("C09", "writer-case", &case, &v);
        }
    }
});
