#![no_main]
mod common;
use libfuzzer_sys::fuzz_target;

fuzz_target!(|data: &[u8]| {
    common::quiet();
    if let Some(case) = c08::decode(data) {
        if let Err(v) = std::panic::catch_unwind(|| c08::run_case(&case)).unwrap_or_else(|_| Err(vcore::Violation::new("panic", "library panicked"))) {
            common::report("C08", "reader-case", &case, &v);
        }
    }
});
