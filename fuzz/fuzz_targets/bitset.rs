#![no_main]
mod common;
use libfuzzer_sys::fuzz_target;

fuzz_target!(|data: &[u8]| {
    common::quiet();
    if let Some(case) = c12::decode(data) {
        if let Err(v) = std::panic::catch_unwind(|| c12::run_case(&case)).unwrap_or_else(|_| Err(vcore::Violation::new("panic", "library panicked"))) {
            common::report("C12", "bitset-history", &case, &v);
        }
    }
});
