#![no_main]
mod common;
use libfuzzer_sys::fuzz_target;

fuzz_target!(|data: &[u8]| {
    common::quiet();
    if let Some(case) = c01::decode(data) {
        // panics inside the library are violations of C01 (documented domain); the catch is silent
        if let Err(v) = std::panic::catch_unwind(|| c01::run_case(&case, c01::Focus::Fold)).unwrap_or_else(|_| Err(vcore::Violation::new("panic", "library panicked"))) {
            common::report("C01", "segtree-history", &case, &v);
        }
        if let Err(v) = std::panic::catch_unwind(|| c01::run_case(&case, c01::Focus::Search)).unwrap_or_else(|_| Err(vcore::Violation::new("panic", "library panicked"))) {
            common::report("C02", "segtree-history", &case, &v);
        }
    }
});
