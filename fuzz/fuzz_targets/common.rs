// shared by all targets: report an oracle violation in a form the driver can turn into a replay file
pub fn report<C: vcore::serde::Serialize>(property: &str, kind: &str, case: &C, v: &vcore::Violation) -> ! {
    if v.sig.starts_with("harness-panic") {
        eprintln!("FUZZ-HARNESS-BUG {}", v.msg);
        std::process::exit(0);
    }
    let body = vcore::serde_json::json!({"property": property, "kind": kind, "sig": v.sig, "msg": v.msg, "case": case, "sub": "libfuzzer"});
    eprintln!("FUZZ-VIOLATION {}", vcore::serde_json::to_string(&body).unwrap());
    panic!("oracle violation: {}", v.sig);
}

pub fn quiet() {
    static ONCE: std::sync::Once = std::sync::Once::new();
    ONCE.call_once(|| {
        // library panics are caught and judged by vcore::guarded; keep the default hook for the final report only
        let default = std::panic::take_hook();
        std::panic::set_hook(Box::new(move |info| {
            let msg = info.payload().downcast_ref::<String>().cloned().or_else(|| info.payload().downcast_ref::<&str>().map(|s| s.to_string())).unwrap_or_default();
            if msg.starts_with("oracle violation") {
                default(info);
            }
        }));
    });
}
