#![no_main]
mod common;
use libfuzzer_sys::fuzz_target;

// C10: configurations on the 2^-37 grid decoded from bytes (two circles, circle and line, two lines; absolute or placed
// relative to a tangency / concentric position with a fine offset). Oracle inside c10::run_case: kind of contact when the
// configuration is >= 2e-8 from every kind boundary, reported points finite and within 1e-7 of both primitives always.
fuzz_target!(|data: &[u8]| {
    common::quiet();
    if let Some(case) = c10::decode(data) {
        if let Err(v) = std::panic::catch_unwind(|| c10::run_case(&case)).unwrap_or_else(|_| Err(vcore::Violation::new("panic", "library panicked"))) {
            common::report("C10", "geometry-case", &case, &v);
        }
    }
});
